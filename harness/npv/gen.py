"""Generators: logical contents, index labels, and layout programs that realise one logical
content in many physical layouts.  Every random choice comes from the rng passed in."""
import pickle

from .common import pa, pd, np, TYPES, dec_cell, NestedExtensionArray

TYNAMES = ["int64", "double", "string", "bool", "timestamp[ns]"]
FIELD_NAMES = ["a", "b", "c", "d"]
SUBSTR_NAMES = ["ab", "a", "b", "a_b"]
STRS = ["", "a", "b", "ab", "é", "x y", "nan"]


BIG_INTS = [2**53, 2**53 + 1, 2**53 + 2, 2**53 + 3, 2**62, 2**62 + 1, -(2**53) - 1, -(2**53) - 2]


def rand_cell(rng, ty, p_null=0.15, p_nan=0.1, p_big=0.0):
    if rng.random() < p_null:
        return None
    if ty == "int64":
        if p_big and rng.random() < p_big:
            return rng.choice(BIG_INTS)   # distinct as integers, equal as float64
        return rng.randint(-3, 6)
    if ty == "double":
        if rng.random() < p_nan:
            return "nan"
        return {"f": rng.randint(-6, 12)}
    if ty == "string":
        return {"s": rng.choice(STRS)}
    if ty == "bool":
        return rng.random() < 0.5
    return {"t": rng.randint(0, 5) * 1_000_000_007}


def rand_ty(rng, nfields=None, types=None):
    k = nfields if nfields is not None else rng.choice([1, 2, 2, 3, 4])
    # every fourth type: names that contain one another (a removal / lookup by name must not match by substring)
    names = (SUBSTR_NAMES if rng.random() < 0.25 else FIELD_NAMES)[:k]
    return [[n, rng.choice(types or TYNAMES)] for n in names]


def rand_row(rng, ty, maxlen=3, p_missing=0.2, p_empty=0.2, **kw):
    r = rng.random()
    if r < p_missing:
        return None
    if r < p_missing + p_empty:
        return [[n, []] for n, _ in ty]
    k = rng.randint(1, maxlen)
    return [[n, [rand_cell(rng, t, **kw) for _ in range(k)]] for n, t in ty]


def rand_content(rng, nrows=None, ty=None, **kw):
    ty = ty or rand_ty(rng)
    n = nrows if nrows is not None else rng.choice([0, 1, 2, 3, 3, 4, 5, 6, 8])
    return {"ty": ty, "rows": [rand_row(rng, ty, **kw) for _ in range(n)]}


def rand_labels(rng, n, kind=None, pattern=None):
    kind = kind or rng.choice(["int", "str"])
    pattern = pattern or rng.choice(["range", "unique_sorted", "unique_unsorted", "dup_sorted", "dup_unsorted", "desc_dups",
                                      "arith"])
    if pattern == "arith":
        # an arithmetic progression not starting at 0 / with another step: becomes a genuine non-default RangeIndex
        a0, k = rng.randint(1, 5), rng.choice([1, 2, 3, -1])
        vals = [a0 + k * i + (n if k < 0 else 0) for i in range(n)]
    elif pattern == "extreme":
        # 64-bit identifiers over the whole int64 range (neighbours in sorted order may be >= 2**63 apart), repeated
        pool = [-(2**63), -(2**62) - 3, -(2**62), -7, 0, 5, 2**62, 2**62 + 1, 2**63 - 1]
        vals = [rng.choice(pool) for _ in range(n)]
        kind = "int"
    elif pattern == "range":
        vals = list(range(n))
    elif pattern.startswith("unique"):
        vals = rng.sample(range(-5, 3 * n + 5), n)
        if pattern == "unique_sorted":
            vals.sort()
    else:
        pool = max(1, n // 2)
        vals = [rng.randint(0, pool) for _ in range(n)]
        if pattern == "dup_sorted":
            vals.sort()
        if pattern == "desc_dups":
            vals.sort(reverse=True)
    if kind == "str":
        vals = [f"k{v:+03d}" for v in vals]
        if pattern.endswith("_sorted") or pattern in ("range", "arith"):
            vals.sort()
        if pattern == "desc_dups":
            vals.sort(reverse=True)
    return vals


# ---------------------------------------------------------------------------------------------
# physical construction

def flat_array(cells, ty):
    vals = [dec_cell(c, ty) for c in cells]
    if ty.startswith("timestamp"):
        return pa.array(vals, type=pa.int64()).cast(TYPES[ty])
    return pa.array(vals, type=TYPES[ty])


def mk_list_array(lists, ty):
    """lists: per row None (null list) or list of cells -> canonical pa.ListArray."""
    offs = [0]
    flat = []
    mask = []
    for l in lists:
        if l is None:
            mask.append(True)
        else:
            mask.append(False)
            flat.extend(l)
        offs.append(len(flat))
    values = flat_array(flat, ty)
    if any(mask):
        return pa.ListArray.from_arrays(pa.array(offs, type=pa.int32()), values, mask=pa.array(mask))
    return pa.ListArray.from_arrays(pa.array(offs, type=pa.int32()), values)


def struct_type(ty):
    return pa.struct([pa.field(n, pa.list_(TYPES[t])) for n, t in ty])


def build_struct(content, missing_style="null", rng=None):
    """One fresh chunk. missing_style in {null, empty, hidden} decides the child lists of missing rows."""
    ty, rows = content["ty"], content["rows"]
    kids = []
    hidden_len = [rng.randint(1, 2) if (rng and missing_style == "hidden") else 0 for _ in rows]
    for j, (n, t) in enumerate(ty):
        lists = []
        for i, r in enumerate(rows):
            if r is None:
                if missing_style == "null" or (missing_style == "mixed" and j % 2 == 0):
                    lists.append(None)
                elif missing_style in ("empty", "mixed"):
                    # "mixed": under one missing row some fields hold a null list, the others an empty one
                    lists.append([])
                else:
                    lists.append([rand_cell(rng, t) for _ in range(hidden_len[i])])
            else:
                lists.append(dict(map(tuple, r))[n])
        kids.append(mk_list_array(lists, t))
    mask = pa.array([r is None for r in rows], type=pa.bool_())
    if len(rows) == 0:
        return pa.array([], type=struct_type(ty))
    return pa.StructArray.from_arrays(kids, names=[n for n, _ in ty], mask=mask)


def junk_rows(rng, ty, k):
    return [rand_row(rng, ty, p_missing=0.2, p_empty=0.2) for _ in range(k)]


def lay_fresh(content, rng, style):
    return pa.chunked_array([build_struct(content, style, rng)], type=struct_type(content["ty"]))


def lay_slice(content, rng, style):
    ty, rows = content["ty"], content["rows"]
    pl, pr = rng.randint(1, 3), rng.randint(0, 2)
    big = {"ty": ty, "rows": junk_rows(rng, ty, pl) + rows + junk_rows(rng, ty, pr)}
    arr = build_struct(big, style, rng)
    return pa.chunked_array([arr.slice(pl, len(rows))], type=struct_type(ty))


def lay_chunks_sliced(content, rng, style):
    """chunks that are windows of one buffer (non-zero raw offsets), possibly empty chunks."""
    ty, rows = content["ty"], content["rows"]
    n = len(rows)
    arr = build_struct(content, style, rng)
    cuts = sorted(rng.randint(0, n) for _ in range(rng.randint(1, 3)))
    bounds = [0] + cuts + [n]
    return pa.chunked_array([arr.slice(a, b - a) for a, b in zip(bounds, bounds[1:])], type=struct_type(ty))


def lay_chunks_fresh(content, rng, style):
    """chunks built independently (each zero-based), possibly empty chunks."""
    ty, rows = content["ty"], content["rows"]
    n = len(rows)
    cuts = sorted(rng.randint(0, n) for _ in range(rng.randint(1, 3)))
    bounds = [0] + cuts + [n]
    return pa.chunked_array(
        [build_struct({"ty": ty, "rows": rows[a:b]}, style, rng) for a, b in zip(bounds, bounds[1:])],
        type=struct_type(ty))


def lay_concat_slices(content, rng, style):
    """chunks that are slices of different padded buffers."""
    ty, rows = content["ty"], content["rows"]
    n = len(rows)
    cuts = sorted(rng.randint(0, n) for _ in range(rng.randint(1, 2)))
    bounds = [0] + cuts + [n]
    chunks = []
    for a, b in zip(bounds, bounds[1:]):
        pl, pr = rng.randint(0, 2), rng.randint(0, 2)
        big = {"ty": ty, "rows": junk_rows(rng, ty, pl) + rows[a:b] + junk_rows(rng, ty, pr)}
        chunks.append(build_struct(big, style, rng).slice(pl, b - a))
    return pa.chunked_array(chunks, type=struct_type(ty))


def lay_take(content, rng, style):
    ty, rows = content["ty"], content["rows"]
    n = len(rows)
    perm = list(range(n))
    rng.shuffle(perm)
    shuffled = {"ty": ty, "rows": [rows[i] for i in perm]}
    inv = [perm.index(i) for i in range(n)]
    arr = build_struct(shuffled, style, rng)
    out = arr.take(pa.array(inv, type=pa.int64()))
    return pa.chunked_array([out], type=struct_type(ty))


def lay_filter(content, rng, style):
    ty, rows = content["ty"], content["rows"]
    mixed, keep = [], []
    for r in rows:
        while rng.random() < 0.3:
            mixed.append(junk_rows(rng, ty, 1)[0])
            keep.append(False)
        mixed.append(r)
        keep.append(True)
    arr = build_struct({"ty": ty, "rows": mixed}, style, rng)
    return pa.chunked_array([arr.filter(pa.array(keep, type=pa.bool_()))], type=struct_type(ty))


def lay_pickle(content, rng, style):
    ca = lay_chunks_fresh(content, rng, style)
    ext = pickle.loads(pickle.dumps(NestedExtensionArray(ca)))
    return ext.chunked_array


def lay_rebuilt_slice(content, rng, style):
    """a struct with offset 0 whose children are still slices of larger buffers
    (what view_fields / pop_fields / set_list_field build from a sliced chunk)"""
    ca = lay_slice(content, rng, style)
    ch = ca.chunk(0)
    if len(ch) == 0:
        return ca
    kids = [ch.field(i) for i in range(ch.type.num_fields)]
    out = pa.StructArray.from_arrays(kids, names=[f.name for f in ch.type], mask=ch.is_null())
    return pa.chunked_array([out], type=ca.type)


def lay_lib_slice_view(content, rng, style):
    """the same through the library: series.iloc[k:] then .nest[[all fields]]"""
    ty, rows = content["ty"], content["rows"]
    pl = rng.randint(1, 3)
    big = {"ty": ty, "rows": junk_rows(rng, ty, pl) + rows}
    ser = pd.Series(NestedExtensionArray(pa.chunked_array([build_struct(big, style, rng)], type=struct_type(ty))))
    out = ser.iloc[pl:].nest[[n for n, _ in ty]]
    return out.array.chunked_array


def lay_parquet(content, rng, style):
    """written to a parquet file and read back with plain pyarrow: the same rows, stored with the Arrow details of
    that provenance (the list child is named 'element', chunks follow the row groups)"""
    import io
    import pyarrow.parquet as pq
    ca = lay_fresh(content, rng, style)
    buf = io.BytesIO()
    pq.write_table(pa.table({"c": ca}), buf, row_group_size=rng.choice([1, 2, 1000]))
    buf.seek(0)
    return pq.read_table(buf)["c"]


def lay_first_field_fresh(content, rng, style):
    """a slice whose FIRST field was rebuilt afresh (what replacing that field's values on a sliced column leaves): the
    first field's lists start at position 0 of their own buffer, the other fields' further into theirs"""
    ca = lay_slice(content, rng, style)
    ch = ca.chunk(0)
    if len(ch) == 0 or ch.type.num_fields < 2:
        return ca
    kids = [ch.field(i) for i in range(ch.type.num_fields)]
    kids[0] = pa.array(kids[0].to_pylist(), type=kids[0].type)
    out = pa.StructArray.from_arrays(kids, names=[f.name for f in ch.type], mask=ch.is_null())
    return pa.chunked_array([out], type=ca.type)


LAYOUTS = {
    "fresh": lay_fresh,
    "first_field_fresh": lay_first_field_fresh,
    "parquet": lay_parquet,
    "rebuilt_slice": lay_rebuilt_slice,
    "lib_slice_view": lay_lib_slice_view,
    "slice": lay_slice,
    "chunks_sliced": lay_chunks_sliced,
    "chunks_fresh": lay_chunks_fresh,
    "concat_slices": lay_concat_slices,
    "take": lay_take,
    "filter": lay_filter,
    "pickle": lay_pickle,
}
STYLES = ["null", "empty", "hidden", "mixed"]


def realise(content, rng, layout=None, style=None, allow_hidden=True):
    """-> (ChunkedArray, layout name, missing style)."""
    layout = layout or rng.choice(list(LAYOUTS))
    styles = STYLES if allow_hidden else [x for x in STYLES if x != "hidden"]
    style = style or rng.choice(styles)
    ca = LAYOUTS[layout](content, rng, style)
    return ca, layout, style


def mk_ext(ca):
    return NestedExtensionArray(ca)


def as_index(index):
    """labels -> pandas index; an arithmetic progression of ints becomes a genuine `pd.RangeIndex` (what slicing a
    default-indexed object leaves: start and step need not be 0 and 1)"""
    idx = list(index)
    if len(idx) >= 2 and all(isinstance(v, int) and not isinstance(v, bool) for v in idx):
        step = idx[1] - idx[0]
        if step != 0 and all(b - a == step for a, b in zip(idx, idx[1:])):
            return pd.RangeIndex(idx[0], idx[0] + step * len(idx), step)
    return pd.Index(idx)


def mk_series(ca, index, name="nest"):
    return pd.Series(NestedExtensionArray(ca), index=as_index(index), name=name)
