"""A subject = one logical content realised in one physical layout, with its exports."""
import copy as _copy

from . import gen, export
from .common import weak_rows


class Subject:
    def __init__(self, ctx, content=None, layout=None, style=None, labels=None, allow_hidden=True, **kw):
        rng = ctx.rng
        self.content = content if content is not None else gen.rand_content(rng, **kw)
        try:
            self.ca, self.layout, self.style = gen.realise(self.content, rng, layout, style, allow_hidden)
        except Exception as e:  # noqa: BLE001
            import os
            import traceback
            tb = traceback.extract_tb(e.__traceback__)
            repo = os.path.realpath(os.environ.get("NPV_REPO", "/repo"))
            if any(os.path.realpath(fr.filename).startswith(repo + os.sep) for fr in tb):
                # a library operation that produces a layout (slice, take, pickle, field selection …) raised on a
                # well-formed column: a concrete failing input
                ctx.case("subject.layout_operation_raised", {"content": self.content, "layout": layout, "style": style},
                         {"err": type(e).__name__, "msg": str(e)[:200], "where": traceback.format_exc()[-800:]}, None,
                         {"ok": "the column in that layout"}, features=(f"layout={layout}",), spec_ok=False, nontrivial=True)
            raise
        n = len(self.content["rows"])
        self.labels = labels if labels is not None else gen.rand_labels(rng, n)
        self.ty = self.content["ty"]
        try:
            self.ext = gen.mk_ext(self.ca)
        except Exception as e:  # noqa: BLE001
            # the constructor refuses storage that holds a rectangular table (or nothing) in every row: a concrete
            # failing input for every property that starts from a column (the run cannot go on past it)
            phys = export.export_col(self.ca)
            a = ctx.driver.call("init", col=phys, validate=True)
            ctx.case("subject.valid_column_refused", {"content": self.content, "layout": self.layout, "style": self.style, "phys": phys},
                     {"err": type(e).__name__, "msg": str(e)[:200]}, None, {"ok": "a nested column with these rows"},
                     features=(f"layout={self.layout}", f"missing={self.style}"), spec_ok=False, nontrivial=True)
            raise
        self.phys = export.export_ext(self.ext)
        a = ctx.driver.call("abs", col=self.phys)
        self.hyp = a["model"]["hyp"] if "model" in a else a["hyp"]
        self.abs_rows = (a["model"] if "model" in a else a)["col"]["rows"]
        # the generator's own invariant: the realised layout reads as the intended content
        if weak_rows(self.abs_rows) != weak_rows(self.content["rows"]):
            ctx.framework_error(f"layout {self.layout}/{self.style} does not realise its content")
        self.features = (f"layout={self.layout}", f"missing={self.style}" if any(r is None for r in self.content["rows"]) else "missing=none",
                         f"n={min(n, 9)}")

    def adopt(self, ctx, ext, rows, tag="hist"):
        """continue with the storage an in-place history left in `ext` (content `rows`)"""
        self.content = {"ty": self.ty, "rows": rows}
        self.ca = ext._chunked_array
        self.ext = gen.mk_ext(self.ca)
        self.phys = export.export_ext(self.ext)
        a = ctx.driver.call("abs", col=self.phys)
        was_hidden = bool(self.hyp.get("hidden"))
        self.hyp = a["model"]["hyp"] if "model" in a else a["hyp"]
        if self.hyp.get("hidden") and not was_hidden:
            # the LIBRARY left child lists under a row it made missing (the known findings K1 are about storage that
            # arrives with such lists): what follows is judged against the specification, not set aside as K1
            self.hyp = dict(self.hyp, hidden=False, hiddenMadeByLibrary=True)
        self.abs_rows = (a["model"] if "model" in a else a)["col"]["rows"]
        if weak_rows(self.abs_rows) == weak_rows(rows):
            # boxing a DataFrame turns NaN into null (`from_pandas=True`): continue with the exact cells stored
            self.content = {"ty": self.ty, "rows": self.abs_rows}
        self.layout = f"{self.layout}+{tag}"
        n = len(rows)
        self.features = (f"layout={self.layout}", f"missing={self.style}" if any(r is None for r in rows) else "missing=none",
                         f"n={min(n, 9)}")

    def fresh_ext(self):
        """a new extension array object over the same storage (operations that mutate get their own)."""
        return gen.mk_ext(self.ca)

    def series(self, name="nest"):
        return gen.mk_series(self.ca, self.labels, name)

    def series_json(self):
        return {"index": export.labels(self.series().index), "col": self.phys}

    def desc(self):
        return {"content": self.content, "layout": self.layout, "style": self.style, "labels": self.labels,
                "phys": self.phys}

    def nontrivial(self):
        return any(r is not None and len(r) > 0 and len(r[0][1]) > 0 for r in self.content["rows"])
