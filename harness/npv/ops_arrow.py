"""C19: Arrow interchange in both orientations."""
from . import gen, export
from .common import pa, pd, np, weak_rows, weak, TYPES, NestedExtensionArray, NestedDtype, NestedFrame
from .runner import call_real
from .subject import Subject
from .ops_array import colres, mcol


def ls_rows(chunked_list_struct, ty):
    """list-of-structs ChunkedArray -> per row: None or table [[name, cells]...] (records transposed back)"""
    out = []
    tymap = dict(map(tuple, ty))
    for ch in chunked_list_struct.iterchunks():
        st = ch.type.value_type
        for i in range(len(ch)):
            x = ch[i]
            if not x.is_valid:
                out.append(None)
                continue
            vals = x.values  # StructArray
            out.append([[st[j].name, [weak(c) for c in export.arrow_values_to_cells(vals.field(j), export.tystr(st[j].type))]]
                        for j in range(st.num_fields)])
    return out


def missing_to_empty(rows, ty):
    return [[[n, []] for n, _ in ty] if r is None else r for r in rows]


def array_prehistory(ctx, s: Subject):
    """one or two rows of the column are replaced IN PLACE (by a table of another size, an empty table, or a missing
    value given as None / pd.NA) before the operation under test; the subject continues with the storage that leaves"""
    from .ops_array import df_of_row
    rng = ctx.rng
    ext = s.fresh_ext()
    n = len(ext)
    if n == 0 or s.hyp.get("hidden"):
        return False
    rows = list(s.content["rows"])
    steps = []
    for _ in range(rng.randint(1, 2)):
        i = rng.randrange(n)
        new_row = gen.rand_row(rng, s.ty, p_missing=0.5, p_empty=0.1, maxlen=4)
        val = df_of_row(new_row, s.ty) if new_row is not None else rng.choice([None, pd.NA])
        # (a table is handed to the array itself: what pandas makes of a DataFrame given to Series.iloc is its own matter)
        how = rng.choice(["array", "series_iloc", "mask"]) if new_row is None else rng.choice(["array", "mask"])
        try:
            if how == "array":
                ext[i] = val
            elif how == "mask":
                m = np.zeros(n, dtype=bool)
                m[i] = True
                ext[m] = val
            else:
                ser = pd.Series(ext, copy=False)
                ser.iloc[i] = val
                ext = ser.array
        except Exception as e:   # noqa: BLE001
            ctx.case("prehistory.setitem", {**s.desc(), "pos": i, "row": new_row, "how": how},
                     {"err": type(e).__name__, "msg": str(e)[:120]}, None, {"ok": True}, hyp=s.hyp)
            return False
        rows[i] = new_row
        steps.append([i, how, new_row is None])
    s.adopt(ctx, ext, rows, tag="assigned")
    ctx.case("prehistory.setitem", {**s.desc(), "steps": steps}, {"ok": weak_rows(s.abs_rows)}, None,
             {"ok": weak_rows(rows)}, hyp=s.hyp, features=s.features, nontrivial=True)
    return True


def case_interchange(ctx, s: Subject):
    from nested_pandas.series.utils import (transpose_list_struct_array, transpose_struct_list_array,
                                            transpose_struct_list_type, transpose_list_struct_type)
    rng = ctx.rng
    ext = s.fresh_ext()
    ty = s.ty
    rows = weak_rows(s.content["rows"])
    feats = s.features
    hyp = s.hyp
    nt = s.nontrivial()
    spec_same = {"ok": {"ty": ty, "rows": rows}}
    # struct orientation: export + import through every door
    ctx.case("arrow.struct_roundtrip", s.desc(), call_real(lambda: colres(NestedExtensionArray(pa.array(ext)))),
             None, spec_same, hyp=hyp, features=feats, nontrivial=nt)
    ctx.case("arrow.to_from_arrow_ext_array", s.desc(),
             call_real(lambda: colres(NestedExtensionArray.from_arrow_ext_array(ext.to_arrow_ext_array()))),
             None, spec_same, hyp=hyp, features=feats, nontrivial=nt)
    ser = s.series()
    ctx.case("arrow.astype_roundtrip", s.desc(),
             call_real(lambda: colres(ser.astype(ser.dtype.to_pandas_arrow_dtype()).astype(ser.dtype).array)),
             None, spec_same, hyp=hyp, features=feats, nontrivial=nt)

    def via_table():
        nf = NestedFrame({"nest": ser.reset_index(drop=True)})
        tbl = pa.Table.from_pandas(nf, preserve_index=False)
        col = tbl.column("nest")
        assert pa.types.is_struct(col.type)
        return colres(NestedExtensionArray(col))
    ctx.case("arrow.table_from_pandas", s.desc(), call_real(via_table), None, spec_same, hyp=hyp, features=feats, nontrivial=nt)
    # list-struct orientation: same records per row
    ans = ctx.driver.call("observers", col=s.phys)
    m_ls = ans["model"]["listStruct"]
    s_ls = ans["spec"]["listStruct"]

    def wl(j):
        return {"ok": weak_rows(j["ok"])} if "ok" in j else j
    real = call_real(lambda: ls_rows(ext.chunked_list_struct_array, ty))
    ctx.case("arrow.list_struct_view", s.desc(), real, wl(m_ls), wl(s_ls), hyp=hyp, features=feats, nontrivial=nt)
    # import of the list-struct orientation reproduces the column
    # (known: a missing row cannot be carried by this orientation as built today -> comes back empty)
    la = call_real(lambda: ext.chunked_list_struct_array)
    if "ok" in la:
        chunks = [export.export_ls(ch) for ch in la["ok"].iterchunks()]
        ans = ctx.driver.call("initLS", ty=ty, chunks=chunks)
        real = call_real(lambda: colres(NestedExtensionArray(la["ok"])))
        ctx.case("arrow.list_struct_import", s.desc(), real, mcol(ans["model"]), spec_same, hyp=hyp, features=feats,
                 nontrivial=nt, mode="ls_missing")
        ctx.case("arrow.to_arrow_ext_array_ls", s.desc(),
                 call_real(lambda: colres(NestedExtensionArray.from_arrow_ext_array(ext.to_arrow_ext_array(list_struct=True)))),
                 mcol(ans["model"]), spec_same, hyp=hyp, features=feats, nontrivial=nt, mode="ls_missing")
    # import of a SLICED list-struct array (raw offsets into a larger buffer), e.g. what
    # series.astype(ArrowDtype(list_struct)).iloc[k:] hands to the constructor
    def sliced_ls():
        pl = rng.randint(1, 3)
        big = {"ty": ty, "rows": gen.junk_rows(rng, ty, pl) + s.content["rows"] + gen.junk_rows(rng, ty, rng.randint(0, 2))}
        big_ext = NestedExtensionArray(gen.build_struct(big, "null", rng))
        la_big = big_ext.chunked_list_struct_array.combine_chunks()
        return la_big.slice(pl, len(s.content["rows"]))
    if len(s.content["rows"]) > 0:
        sl = call_real(sliced_ls)
        if "ok" in sl:
            ans = ctx.driver.call("initLS", ty=ty, chunks=[export.export_ls(sl["ok"])])
            real = call_real(lambda: colres(NestedExtensionArray(sl["ok"])))
            ctx.case("arrow.list_struct_import_sliced", s.desc(), real, mcol(ans["model"]), spec_same, hyp=hyp, features=feats,
                     nontrivial=nt, mode="ls_missing")
            # through pandas: a Series of the list-struct Arrow dtype handed to the nested constructor
            ser_ls = call_real(lambda: colres(NestedExtensionArray.from_arrow_ext_array(
                pd.Series(sl["ok"], dtype=pd.ArrowDtype(sl["ok"].type)).array)))
            ctx.case("arrow.from_arrow_ext_array_list_struct_sliced", s.desc(), ser_ls, mcol(ans["model"]), spec_same, hyp=hyp,
                     features=feats, nontrivial=nt, mode="ls_missing")

    # pandas -> Arrow table -> pandas: the dtype travels as its string name in the pandas metadata
    def table_roundtrip():
        nf = NestedFrame({"nest": ser.reset_index(drop=True)})
        back = pa.Table.from_pandas(nf).to_pandas()
        assert back["nest"].dtype == ser.dtype, f"dtype {back['nest'].dtype} != {ser.dtype}"
        return colres(back["nest"].array)
    ctx.case("arrow.table_roundtrip_to_pandas", s.desc(), call_real(table_roundtrip), None, spec_same, hyp=hyp, features=feats,
             nontrivial=nt)
    # transposing twice is the identity (chunk level) and types transpose back
    st = ext.chunked_array.type
    ctx.case("arrow.type_transpose_involutive", {"ty": ty},
             call_real(lambda: transpose_list_struct_type(transpose_struct_list_type(st)).equals(st)
                       and transpose_struct_list_type(transpose_list_struct_type(transpose_struct_list_type(st)))
                       .equals(transpose_struct_list_type(st))),
             None, {"ok": True}, features=feats)

    def twice():
        out = []
        for ch in ext.chunked_array.iterchunks():
            back = transpose_list_struct_array(transpose_struct_list_array(ch))
            out.append(back)
        return colres(NestedExtensionArray(pa.chunked_array(out, type=st)))
    ctx.case("arrow.transpose_twice", s.desc(), call_real(twice), None, spec_same, hyp=hyp, features=feats, nontrivial=nt,
             mode="ls_missing")
    # explicit type requests
    def widened_type():
        fields = []
        for n, t in ty:
            vt = {"int64": pa.float64(), "string": pa.large_string(), "bool": pa.int64()}.get(t, TYPES[t])
            fields.append(pa.field(n, pa.list_(vt)))
        return pa.struct(fields)
    wt = widened_type()

    def cast_struct():
        out = pa.array(ext, type=wt)
        assert out.type.equals(wt), "type request not honoured"
        return [None if r is None else [len(c) for _, c in r] for r in export.rows_view(NestedExtensionArray(out))]
    ctx.case("arrow.cast_widen", s.desc(), call_real(cast_struct), None,
             {"ok": [None if r is None else [len(c) for _, c in r] for r in rows]}, hyp=hyp, features=feats, nontrivial=nt)
    # the same request through the packer's entry points, for a source that is already Arrow-backed (a nested
    # Series, or the pandas Arrow dtype of its struct type): honoured by casting every field, or refused
    if wt != st:
        from nested_pandas.series.packer import pack, pack_seq
        for src_kind in ("nested", "arrow"):
            def source():
                return ser if src_kind == "nested" else ser.astype(pd.ArrowDtype(st))
            for entry, fn in (("pack_seq", lambda: pack_seq(source(), dtype=NestedDtype(wt))),
                              ("pack", lambda: pack(source(), dtype=NestedDtype(wt))),
                              ("pack_arrow_dtype", lambda: pack(source(), dtype=pd.ArrowDtype(wt))),
                              # (joined on a default index: repeated labels would multiply the rows)
                              ("add_nested", lambda: NestedFrame({"k": np.arange(len(ser))})
                               .add_nested(source().reset_index(drop=True), "q", dtype=NestedDtype(wt))["q"])):
                def run(fn=fn):
                    r = fn()
                    return {"type_honoured": bool(r.array.chunked_array.type.equals(wt)) and bool(r.dtype == NestedDtype(wt)),
                            "lens": [None if x is None else [len(c) for _, c in x] for x in export.rows_view(r.array)]}
                real = call_real(run)
                ok = "err" in real or (real["ok"]["type_honoured"]
                                       and real["ok"]["lens"] == [None if r is None else [len(c) for _, c in r] for r in rows])
                ctx.case(f"arrow.type_request.{entry}", {**s.desc(), "source": src_kind, "requested": str(wt)}, real, None, None,
                         hyp=hyp, features=feats + (src_kind, entry), spec_ok=ok, nontrivial=nt)
        # the request spelled in the OTHER orientation (a list of structs with the widened element types)
        lwt = transpose_struct_list_type(wt)
        # (not on storage whose missing rows hide records: the list-of-structs orientation shows those — K1/K6)
        for entry, fn in () if hyp.get("hidden") else (("from_sequence_ls", lambda: pd.Series(NestedExtensionArray.from_sequence(ser.array, dtype=pd.ArrowDtype(lwt)))),
                          ("from_sequence_ls_pa", lambda: pd.Series(NestedExtensionArray.from_sequence(ser.array, dtype=lwt))),
                          ("pack_seq_ls", lambda: pack_seq(ser, dtype=pd.ArrowDtype(lwt))),
                          ("pack_ls", lambda: pack(ser.astype(pd.ArrowDtype(st)), dtype=lwt))):
            def run(fn=fn):
                r = fn()
                return {"type_honoured": bool(r.array.chunked_array.type.equals(wt)),
                        "lens": [None if x is None else [len(c) for _, c in x] for x in export.rows_view(r.array)]}
            real = call_real(run)
            # (the list-of-structs orientation has no place for a missing row: it comes back as a row of empty lists — K6)
            def z(l):
                return [[0] * len(ty) if x is None else x for x in l]
            ok = "err" in real or (real["ok"]["type_honoured"]
                                   and z(real["ok"]["lens"]) == z([None if r is None else [len(c) for _, c in r] for r in rows]))
            ctx.case(f"arrow.type_request.{entry}", {**s.desc(), "requested": str(lwt)}, real, None, None,
                     hyp=hyp, features=feats + ("list_struct_request", entry), spec_ok=ok, nontrivial=nt)
    # a nested-to-nested request that changes ONLY the unit of a timestamp field: cast, or refused
    if any(t == "timestamp[ns]" for _, t in ty):
        ut = pa.struct([pa.field(n, pa.list_(pa.timestamp("us") if t == "timestamp[ns]" else TYPES[t])) for n, t in ty])
        for entry, fn in (("astype", lambda: ser.astype(NestedDtype(ut))),
                          ("series_dtype", lambda: pd.Series(ser.array, index=ser.index, dtype=NestedDtype(ut)))):
            def run(fn=fn):
                r = fn()
                return {"type_honoured": bool(r.array.chunked_array.type.equals(ut)) and str(r.dtype) == str(NestedDtype(ut))}
            real = call_real(run)
            ctx.case(f"arrow.timestamp_unit_request.{entry}", {**s.desc(), "requested": str(ut)}, real, None, None, hyp=hyp,
                     features=feats + ("timestamp_unit", entry), spec_ok=("err" in real or real["ok"]["type_honoured"]), nontrivial=nt)
    lst = transpose_struct_list_type(st)

    def cast_ls():
        out = pa.array(ext, type=lst)
        assert out.type.equals(lst)
        return ls_rows(pa.chunked_array(out) if isinstance(out, pa.Array) else out, ty)
    ctx.case("arrow.export_as_list_struct_type", s.desc(), call_real(cast_ls), wl(m_ls), wl(s_ls), hyp=hyp, features=feats,
             nontrivial=nt)
    # the list-struct orientation through pandas' table conversion: `Table.to_pandas` hands the list-of-structs
    # column to `NestedDtype.__from_arrow__` (the pandas metadata / a types_mapper names the nested dtype)
    if "ok" in la:
        def table_ls_metadata():
            nf = NestedFrame({"nest": ser.reset_index(drop=True)})
            tbl = pa.Table.from_pandas(nf, schema=pa.schema([pa.field("nest", lst)]), preserve_index=False)
            assert tbl.column("nest").type.equals(lst), "schema request not honoured"
            back = tbl.to_pandas()
            assert isinstance(back["nest"].dtype, NestedDtype), f"came back as {back['nest'].dtype}"
            return colres(back["nest"].array)
        ctx.case("arrow.table_list_struct_to_pandas", s.desc(), call_real(table_ls_metadata), mcol(ans["model"]) if False else None,
                 spec_same, hyp=hyp, features=feats, nontrivial=nt, mode="ls_missing")

        def table_ls_mapper():
            tbl = pa.table({"nest": la["ok"]})
            back = tbl.to_pandas(types_mapper=lambda t: NestedDtype(st) if t.equals(lst) else None)
            assert isinstance(back["nest"].dtype, NestedDtype), f"came back as {back['nest'].dtype}"
            return colres(back["nest"].array)
        ctx.case("arrow.table_list_struct_types_mapper", s.desc(), call_real(table_ls_mapper), None, spec_same, hyp=hyp,
                 features=feats, nontrivial=nt, mode="ls_missing")
    # a cast that changes only SOME fields of a sliced column leaves the fields of a chunk with different offset bases:
    # the two orientations must still hold the same records per row
    widen = {"int64": pa.float64(), "string": pa.large_string(), "bool": pa.int64(), "timestamp[ns]": pa.timestamp("ns")}
    if len(ser) >= 2 and len(ty) >= 2:
        j0 = rng.randrange(len(ty))
        pt = pa.struct([pa.field(n, pa.list_(widen.get(t, TYPES[t]) if j == j0 else TYPES[t])) for j, (n, t) in enumerate(ty)])

        def partial_cast():
            part = ser.iloc[rng.randint(1, len(ser) - 1):].astype(NestedDtype(pt))
            ty2 = export.dtype_ty(part.dtype)
            struct_view = weak_rows(export.rows_view(part.array))
            ls_view = ls_rows(part.array.chunked_list_struct_array, ty2)
            empty = [[n, []] for n, _ in ty2]
            norm = lambda rows: [empty if r is None else r for r in rows]   # noqa: E731  (K6: missing <-> empty in this orientation)
            return {"same_records": norm(struct_view) == norm(ls_view), "struct": norm(struct_view), "list_struct": norm(ls_view)}
        real = call_real(partial_cast)
        ok = "ok" in real and real["ok"]["same_records"]
        ctx.case("arrow.partial_cast_orientations", {**s.desc(), "field": ty[j0][0]}, real, None, None, hyp=hyp, features=feats,
                 spec_ok=ok or bool(hyp.get("hidden")), nontrivial=nt)
    # a list-of-structs column with ZERO chunks (what a mask selecting nothing leaves in pyarrow)
    def zero_chunks():
        out = {}
        e1 = NestedExtensionArray(pa.chunked_array([], type=lst))
        out["constructor"] = [len(e1), export.dtype_ty(e1.dtype)]
        if "ok" in la and len(ser):
            ser_ls = pd.Series(la["ok"], dtype=pd.ArrowDtype(lst))
            none = ser_ls[np.zeros(len(ser_ls), dtype=bool)]
            e2 = NestedExtensionArray.from_arrow_ext_array(none.array)
            out["from_masked_series"] = [len(e2), export.dtype_ty(e2.dtype)]
        return out
    real = call_real(zero_chunks)
    exp = {"constructor": [0, ty]}
    if "ok" in la and len(ser):
        exp["from_masked_series"] = [0, ty]
    ctx.case("arrow.list_struct_zero_chunks", {"ty": ty}, real, None, {"ok": exp}, features=feats)
    bad = pa.struct([pa.field(n, pa.list_(pa.int64())) for n, _ in ty] + [pa.field("extra", pa.list_(pa.int64()))])
    real = call_real(lambda: str(pa.array(ext, type=bad).type))
    ok = "err" in real or real.get("ok") == str(bad)
    ctx.case("arrow.cast_incompatible", s.desc(), real, None, {"err": "ValueError"}, hyp=hyp, features=feats, spec_ok=ok)



def case_type_request_values(ctx):
    """a type request on the IMPORT side (astype / Series(dtype=) / from_sequence / pack_seq with a nested dtype of
    WIDENED element types) is honoured value for value or refused: never a silently altered value.  Directed at
    values the requested element type cannot hold exactly: 64-bit integers beyond 2**53 asked to become doubles."""
    from fractions import Fraction
    from nested_pandas.series.packer import pack_seq
    rng = ctx.rng
    # (narrowing requests — fractions to integers, nanoseconds to seconds — are outside the property's target types)
    kind = rng.choice(["int_to_double", "int_to_double", "int_to_double_small"])
    n = rng.randint(1, 4)
    lens = [rng.randint(0, 3) for _ in range(n)]
    if sum(lens) == 0:
        lens[0] = 2
    k = sum(lens)
    if kind == "int_to_double":
        vals = [rng.choice(gen.BIG_INTS) for _ in range(k)]
        src, dst = pa.int64(), pa.float64()
    elif kind == "int_to_double_small":
        vals = [rng.randint(-5, 5) for _ in range(k)]
        src, dst = pa.int64(), pa.float64()
    elif kind == "double_to_int":
        vals = [rng.randint(-8, 8) / 2.0 for _ in range(k)]
        if all(float(v).is_integer() for v in vals):
            vals[0] = 0.5
        src, dst = pa.float64(), pa.int64()
    else:
        vals = [1_600_000_000_000_000_000 + rng.randint(1, 999_999_999) for _ in range(k)]
        src, dst = pa.timestamp("ns"), pa.timestamp("s")
    offs = np.cumsum([0] + lens).astype(np.int32)
    other = pa.array(list(range(k)), type=pa.int64())
    st = pa.struct([pa.field("v", pa.list_(src)), pa.field("w", pa.list_(pa.int64()))])
    arr = pa.StructArray.from_arrays([pa.ListArray.from_arrays(pa.array(offs), pa.array(vals, type=src) if kind == "double_to_int" else pa.array(vals, type=pa.int64()).cast(src)),
                                      pa.ListArray.from_arrays(pa.array(offs), other)], fields=list(st))
    ext = NestedExtensionArray(arr)
    ser = pd.Series(ext, name="c")
    wt = pa.struct([pa.field("v", pa.list_(dst)), pa.field("w", pa.list_(pa.int64()))])
    lossless = kind == "int_to_double_small"
    for entry, fn in (("astype", lambda: ser.astype(NestedDtype(wt))),
                      ("series_dtype", lambda: pd.Series(ser.array, dtype=NestedDtype(wt))),
                      ("from_sequence", lambda: pd.Series(NestedExtensionArray.from_sequence(ser.array, dtype=NestedDtype(wt)))),
                      ("from_sequence_tables", lambda: pd.Series(NestedExtensionArray.from_sequence(list(ser), dtype=NestedDtype(wt)))),
                      ("pack_seq", lambda: pack_seq(ser, dtype=NestedDtype(wt)))):
        def run(fn=fn):
            r = fn()
            flat = pa.chunked_array([c.field("v").flatten() for c in r.array.chunked_array.chunks]) if r.array.chunked_array.num_chunks \
                else pa.chunked_array([], type=dst)
            got = flat.cast(pa.int64()).to_pylist() if pa.types.is_timestamp(dst) else flat.to_pylist()
            unit = 10 ** 9 if pa.types.is_timestamp(dst) else 1
            exact = len(got) == len(vals) and all(g is not None and Fraction(g) * unit == Fraction(v) for g, v in zip(got, vals))
            return {"type_honoured": bool(r.array.chunked_array.type.equals(wt)), "values_exact": exact}
        real = call_real(run)
        ok = ("err" in real and not lossless) or ("ok" in real and real["ok"]["values_exact"] and real["ok"]["type_honoured"]) \
            or ("err" in real and lossless and entry == "from_sequence_tables")
        ctx.case(f"arrow.type_request_values.{entry}", {"kind": kind, "values": [str(v) for v in vals], "lens": lens,
                                                         "requested": str(wt)}, real, None, None,
                 features=("type_request_values", kind, entry), spec_ok=ok)
