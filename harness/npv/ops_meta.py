"""C04: metamorphic check — one logical content realised in many physical layouts; every public
operation must give the same logical result on all of them (or fail on all)."""
import io
import pickle
import random

from . import gen, export
from .common import pa, pd, np, weak_rows, weak, TYPES, dec_cell, NestedExtensionArray, NestedDtype, NestedFrame
from .runner import call_real
from .subject import Subject
from .ops_array import colres, df_of_row, py_key, rand_key, lens_of
from .ops_arrow import ls_rows

LAYOUT_SENSITIVE_MISSING = {"to_lists", "get_list_series", "iter_field_lists", "reduce"}


def npval(a):
    """numpy array handed to a reduce callback -> comparable"""
    if a is None:
        return None
    a = np.asarray(a)
    if a.ndim == 0:
        return {"scalar": str(a.item())}
    return {"dtype": str(a.dtype), "vals": [None if (isinstance(v, float) and v != v) or v is None or v is pd.NaT else str(v) for v in a.tolist()]}


def sview(r):
    return {"index": export.labels(r.index), "name": r.name, **colres(r.array)}


def fview(nf):
    """frame -> comparable: class, columns, index, base columns, nested columns as rows"""
    out = {"cls": type(nf).__name__, "columns": [str(c) for c in nf.columns], "index": export.labels(nf.index)}
    for c in nf.columns:
        if isinstance(nf[c].dtype, NestedDtype):
            out[str(c)] = colres(nf[c].array)
        else:
            out[str(c)] = [None if pd.isna(v) else (float(v) if isinstance(v, (float, np.floating)) else
                                                    (int(v) if isinstance(v, (int, np.integer)) else str(v))) for v in nf[c].tolist()]
    return out


def observe_all(s2):
    """the views of a derived Series (what a user looks at after an edit)"""
    out = {}
    obs = {
        "rows": lambda: weak_rows(export.rows_view(s2.array)),
        "list_lengths": lambda: [int(x) for x in s2.nest.list_lengths],
        "flat_length": lambda: int(s2.nest.flat_length),
        "list_index": lambda: [int(x) for x in s2.array.get_list_index()],
        "to_flat": lambda: export.flat_df_view(s2.nest.to_flat()),
        "list_struct": lambda: ls_rows(s2.array.chunked_list_struct_array, export.dtype_ty(s2.dtype)),
        "second_edit": lambda: sview(s2.nest.with_flat_field("zz", np.arange(int(s2.nest.flat_length), dtype=np.int64))),
    }
    for k, f in obs.items():
        r = call_real(f)
        out[k] = r if "ok" in r else {"err": True}
    return out


def build_battery(content, labels, seed):
    """operations with arguments fixed by the content (identical for every layout)"""
    rng = random.Random(seed)
    ty = content["ty"]
    rows = content["rows"]
    n = len(rows)
    lens = lens_of(content)
    total = sum(lens)
    names = [x for x, _ in ty]
    f0, t0 = ty[0]
    ops = []

    def add(name, fn):
        ops.append((name, fn))
    add("len", lambda s: len(s.array))
    add("isna", lambda s: [bool(b) for b in s.isna()])
    add("rows", lambda s: weak_rows(export.rows_view(s.array)))
    add("list_lengths", lambda s: [int(x) for x in s.nest.list_lengths])
    add("flat_length", lambda s: int(s.nest.flat_length))
    add("list_offsets", lambda s: [int(x) for x in np.asarray(s.array.list_offsets)])
    add("field_names", lambda s: list(s.nest.fields))
    add("get_list_index", lambda s: [int(x) for x in s.array.get_list_index()])
    add("to_flat", lambda s: export.flat_df_view(s.nest.to_flat()))
    add("get_flat_index", lambda s: export.labels(s.nest.get_flat_index()))
    add("get_flat_series", lambda s: export.flat_df_view(s.nest[f0].to_frame()))
    add("to_lists", lambda s: export.list_df_view(s.nest.to_lists()))
    add("get_list_series", lambda s: export.list_df_view(s.nest.get_list_series(f0).to_frame()))
    add("iter_field_lists", lambda s: [npval(a) for a in s.array.iter_field_lists(f0)])
    for i in range(3):
        key = rand_key(rng, n)
        add(f"getitem[{key['k']}]#{i}", lambda s, key=key: (lambda r: colres(r) if isinstance(r, NestedExtensionArray)
                                                          else weak_rows([export.row_view(r, ty)]))(s.array[py_key(key)]))
    idx = [rng.randint(-n, n - 1) for _ in range(rng.randint(0, n + 1))] if n else []
    add("take", lambda s: colres(s.array.take(np.array(idx, dtype=np.int64))))
    idxf = [rng.randint(-1, n - 1) for _ in range(3)] if n else [-1]
    fill = gen.rand_row(rng, ty, p_missing=0)
    add("take_fill", lambda s: colres(s.array.take(np.array(idxf, dtype=np.int64), allow_fill=True, fill_value=df_of_row(fill, ty))))
    add("dropna", lambda s: sview(s.dropna()))
    add("pickle", lambda s: sview(pickle.loads(pickle.dumps(s))))
    add("copy", lambda s: sview(s.copy()))
    add("list_struct", lambda s: ls_rows(s.array.chunked_list_struct_array, ty))
    if n >= 2 and all(r is not None for r in rows):
        # the list view packed together with a list column in ANOTHER chunking (same number of chunks or not)
        from nested_pandas.series.packer import pack_lists
        cut = rng.randint(1, n - 1)
        extra = gen.mk_list_array([[i] * l for i, l in enumerate(lens)], "int64")
        for tag, bounds in (("2chunks", [0, cut, n]), ("3chunks", [0, cut, cut, n])):
            ch = pa.chunked_array([extra.slice(a, b - a) for a, b in zip(bounds, bounds[1:])], type=extra.type)

            def relist(s, ch=ch):
                df = s.nest.to_lists()
                df["extra"] = pd.Series(ch, dtype=pd.ArrowDtype(ch.type), index=df.index)
                return sview(pack_lists(df, name="again"))
            add(f"to_lists_pack_with_other_chunking.{tag}", relist)
    add("arrow_roundtrip", lambda s: colres(NestedExtensionArray(pa.array(s.array))))
    if n:
        pos = rng.randrange(n)
        row = gen.rand_row(rng, ty, p_missing=0.3)

        def setit(s):
            a = s.array.copy()
            a[pos] = df_of_row(row, ty)
            return colres(a)
        add("setitem", setit)
        # several different tables at several positions (targets in different chunks of a chunked layout)
        k = rng.randint(2, min(n, 4)) if n >= 2 else 1
        poss = sorted(rng.sample(range(n), k))
        many = [gen.rand_row(rng, ty, p_missing=0.2) for _ in poss]

        def setmany(s, how):
            a = s.array.copy()
            vals = [df_of_row(r, ty) for r in many]
            if how == "ints":
                a[np.array(poss, dtype=np.int64)] = vals
            elif how == "mask":
                m = np.zeros(n, dtype=bool)
                m[poss] = True
                a[m] = vals
            else:
                a[poss[0]:poss[-1] + 1] = [df_of_row(r, ty) for r in
                                           (many + [gen.rand_row(random.Random(seed + 1), ty, p_missing=0.0)] * n)[:poss[-1] + 1 - poss[0]]]
            return colres(a)
        add("setitem_many_ints", lambda s: setmany(s, "ints"))
        add("setitem_many_mask", lambda s: setmany(s, "mask"))
        add("setitem_many_slice", lambda s: setmany(s, "slice"))
    t = rng.choice(gen.TYNAMES)
    cells = [gen.rand_cell(rng, t) for _ in range(total)]
    add("with_flat_field", lambda s: sview(s.nest.with_flat_field("z", gen.flat_array(cells, t))))
    add("with_flat_field_existing", lambda s: sview(s.nest.with_flat_field(f0, gen.flat_array(cells, t))))
    lists = [[gen.rand_cell(rng, t) for _ in range(l)] for l in lens]
    add("with_list_field", lambda s: sview(s.nest.with_list_field("z", gen.mk_list_array(lists, t))))
    per_row = [gen.rand_cell(rng, t) for _ in range(n)]
    add("with_filled_field", lambda s: sview(s.nest.with_filled_field("z", gen.flat_array(per_row, t))))
    if len(names) > 1:
        add("without_field", lambda s: sview(s.nest.without_field(names[-1])))
    add("field_subset", lambda s: sview(s.nest[[names[0]]]))
    cells0 = [gen.rand_cell(rng, t0) for _ in range(total)]

    def nest_set(s):
        s2 = pd.Series(s.array.copy(), index=s.index, name=s.name)
        s2.nest[f0] = gen.flat_array(cells0, t0)
        return sview(s2)
    add("nest_setitem", nest_set)
    # what the edited objects look like through every view (two-step histories)
    add("with_flat_field.then", lambda s: observe_all(s.nest.with_flat_field("z", gen.flat_array(cells, t))))
    add("with_flat_field_existing.then", lambda s: observe_all(s.nest.with_flat_field(f0, gen.flat_array(cells, t))))
    add("with_list_field.then", lambda s: observe_all(s.nest.with_list_field("z", gen.mk_list_array(lists, t))))
    add("with_filled_field.then", lambda s: observe_all(s.nest.with_filled_field("z", gen.flat_array(per_row, t))))
    if len(names) > 1:
        add("without_field.then", lambda s: observe_all(s.nest.without_field(names[0])))

    def nest_set_then(s):
        s2 = pd.Series(s.array.copy(), index=s.index, name=s.name)
        s2.nest[f0] = gen.flat_array(cells0, t0)
        return observe_all(s2)
    add("nest_setitem.then", nest_set_then)
    # frame level
    num = next(((nm, tt) for nm, tt in ty if tt in ("int64", "double")), None)

    def frame(s):
        nf = NestedFrame({"id": np.arange(n, dtype=np.int64)}, index=s.index)
        nf["nest"] = s
        return nf
    if num:
        fn, _ = num
        add("query", lambda s: fview(frame(s).query(f"nest.{fn} > 0")))
        add("query_or", lambda s: fview(frame(s).query(f"nest.{fn} > 1 or nest.{fn} < 0")))
        add("eval", lambda s: export.flat_df_view(frame(s).eval(f"nest.{fn} * 2 + 1").to_frame("v")))
        add("eval_assign", lambda s: fview(frame(s).eval(f"nest.q = nest.{fn} + 1")))
    add("sort_values", lambda s: fview(frame(s).sort_values(f"nest.{f0}")))
    add("sort_values_desc", lambda s: fview(frame(s).sort_values(f"nest.{f0}", ascending=False, na_position="first")))
    add("frame_dropna", lambda s: fview(frame(s).dropna(subset=f"nest.{f0}")))
    add("frame_dropna_on_nested", lambda s: fview(frame(s).dropna(on_nested="nest", how="all")))
    add("frame_getitem", lambda s: export.flat_df_view(frame(s)[f"nest.{f0}"].to_frame()))

    def frame_set(s):
        nf = frame(s)
        nf["nest.z"] = gen.flat_array(cells, t)
        return fview(nf)
    add("frame_setitem", frame_set)

    def frame_set_then(s):
        nf = frame(s)
        nf["nest.z"] = gen.flat_array(cells, t)
        out = {"obs": observe_all(nf["nest"])}
        for nm, f in (("query", lambda: fview(nf.query("nest.z == nest.z"))), ("sort", lambda: fview(nf.sort_values("nest.z"))),
                      ("dropna", lambda: fview(nf.dropna(subset="nest.z")))):
            r = call_real(f)
            out[nm] = r if "ok" in r else {"err": True}
        return out
    add("frame_setitem.then", frame_set_then)

    def red(s):
        calls = []

        def fun(i, a):
            calls.append([int(i), npval(a)])
            return {"n": 0 if np.ndim(a) == 0 else len(a)}
        r = frame(s).reduce(fun, "id", f"nest.{f0}")
        return {"calls": calls, "res": fview(r)}
    add("reduce", red)

    def cnt(s):
        from nested_pandas.utils import count_nested
        return fview(count_nested(frame(s), "nest"))
    add("count_nested", cnt)

    def parq(s):
        from nested_pandas import read_parquet
        buf = io.BytesIO()
        frame(s).reset_index(drop=True).to_parquet(buf)
        buf.seek(0)
        return fview(read_parquet(buf))
    add("parquet", parq)
    # the dtype is a description of the logical column: equal to the dtype declared from the fields, with the same
    # hash, whatever the provenance of the storage; columns of different provenance concatenate into a nested column
    declared = NestedDtype(gen.struct_type(ty))
    fresh_ca = gen.lay_fresh(content, random.Random(seed + 2), "null")

    def dtype_identity(s):
        d = s.dtype
        return {"eq_declared": bool(d == declared) and bool(declared == d), "hash_eq": hash(d) == hash(declared),
                "name": d.name == declared.name, "in_set": d in {declared}}
    add("dtype_identity", dtype_identity)

    def concat_fresh(s):
        other = pd.Series(NestedExtensionArray(fresh_ca), index=pd.Index(labels), name=s.name)
        r1, r2 = pd.concat([s, other]), pd.concat([other, s])
        return {"first": sview(r1), "second": sview(r2), "equals_fresh": bool(s.equals(other)) or None}
    add("concat_with_fresh", concat_fresh)
    add("base_filter", lambda s: fview(frame(s).query("id >= 1")))
    add("all_columns", lambda s: {k: [str(x) for x in v] for k, v in frame(s).all_columns.items()})
    return ops


def metamorphic(ctx, count):
    rng = ctx.rng
    for ci in range(count):
        content = gen.rand_content(rng)
        n = len(content["rows"])
        labels = gen.rand_labels(rng, n)
        seed = rng.randrange(10**9)
        battery = build_battery(content, labels, seed)
        has_missing = any(r is None for r in content["rows"])
        combos = [("fresh", "null")]
        lays = [l for l in gen.LAYOUTS if l != "fresh"]
        rng.shuffle(lays)
        for l in lays[:ctx.budget(5, 7)]:
            combos.append((l, rng.choice(gen.STYLES) if has_missing else "null"))
        if has_missing:
            combos.append(("fresh", "empty"))
            combos.append(("fresh", "hidden"))
        subs = [Subject(ctx, content=content, layout=l, style=st, labels=labels) for l, st in combos]
        ref_results = None
        for si, s in enumerate(subs):
            ser = s.series()
            index_repr = "as_built"
            if si > 0 and isinstance(ser.index, pd.RangeIndex) and (ci + si) % 2 == 0:
                # the same labels held as a plain Index instead of the RangeIndex a slice of a default index leaves
                ser.index = pd.Index(list(ser.index), dtype="int64")
                index_repr = "plain_int64"
            results = {}
            for name, fn in battery:
                r = call_real(lambda: fn(ser))
                results[name] = r
            if ref_results is None:
                ref_results = results
                ref = s
                for name in results:
                    ctx.case(f"metamorphic.{name}", {"content": content}, results[name], None, None, hyp=s.hyp,
                             features=("reference",), nontrivial=s.nontrivial())
                continue
            for name, r in results.items():
                base = name.split("[")[0].split("#")[0]
                mode = "layout" if (base in LAYOUT_SENSITIVE_MISSING and not s.hyp.get("hidden")) else "spec"
                rr = r if "ok" in r else {"err": True}
                rf = ref_results[name] if "ok" in ref_results[name] else {"err": True}
                ctx.case(f"metamorphic.{base}", {"content": content, "labels": labels, "battery_seed": seed,
                                                 "layout": s.layout, "style": s.style, "phys": s.phys,
                                                 "index_repr": index_repr, "reference_layout": [ref.layout, ref.style], "op": name},
                         r, None, ref_results[name], hyp=s.hyp, features=(f"layout={s.layout}", f"style={s.style}", base, f"index={index_repr}"),
                         spec_ok=(rr == rf), mode=mode, nontrivial=s.nontrivial())
        # comparisons between two non-reference layouts (e.g. the same number of chunks cut at different rows): as equal
        # as the reference is to a second copy of itself
        def eqs(a, b):
            sa, sb = a.series(), b.series()
            return {"array": bool(sa.array.equals(sb.array)), "series": bool(sa.equals(sb)),
                    "frame": bool(NestedFrame({"nest": sa}).equals(NestedFrame({"nest": sb})))}
        want = call_real(lambda: eqs(subs[0], Subject(ctx, content=content, layout="fresh", style="null", labels=labels)))
        pairs = [(i, j) for i in range(1, len(subs)) for j in range(1, len(subs)) if i != j]
        rng.shuffle(pairs)
        for i, j in pairs[:ctx.budget(4, 10)]:
            a, b = subs[i], subs[j]
            got = call_real(lambda: eqs(a, b))
            hyp = dict(a.hyp)
            hyp.update({k: True for k, v in b.hyp.items() if v})
            ctx.case("metamorphic.equals_pairwise", {"content": content, "labels": labels,
                                                     "left": [a.layout, a.style, a.phys], "right": [b.layout, b.style, b.phys]},
                     got, None, want, hyp=hyp, features=(f"layout={a.layout}", f"layout={b.layout}", "equals_pairwise"),
                     spec_ok=(got == want), mode="spec", nontrivial=a.nontrivial())



def case_construction_history(ctx):
    """construction history: an object reached by copying another one and changing rows IN PLACE (tables of another
    size, a missing value) — and the object it was copied from — behave like objects built afresh from their own
    rows, whichever of the two is asked first and whatever was read before the change"""
    rng = ctx.rng
    s = Subject(ctx, allow_hidden=False, nrows=rng.randint(2, 6))
    ty = s.ty
    a = s.series()
    n = len(a)

    def observe(x):
        return {"list_lengths": [int(v) for v in x.nest.list_lengths], "flat_length": int(x.nest.flat_length),
                "list_index": [int(v) for v in x.array.get_list_index()],
                "flat_index": export.labels(x.nest.get_flat_index()),
                # (the fresh object is built from the element view, which does not tell NaN from null)
                "to_flat": (lambda v: {"index": v["index"], "cols": [[c[0], c[1], [weak(z) for z in c[2]]] for c in v["cols"]]})(
                    export.flat_df_view(x.nest.to_flat())),
                "filled": colres(x.nest.with_filled_field("zz_fill", np.arange(len(x), dtype=np.int64)).array)}

    def fresh_like(x):
        rows = list(x)
        return pd.Series(NestedExtensionArray.from_sequence(rows, dtype=x.dtype), index=x.index, name=x.name)
    read_first = rng.random() < 0.5
    if read_first:
        call_real(lambda: observe(a))
    b = a.copy()
    target = rng.choice(["copy", "original"])
    tgt = b if target == "copy" else a
    steps = []
    for _ in range(rng.randint(1, 2)):
        pos = rng.randrange(n)
        row = gen.rand_row(rng, ty, p_missing=0.25, p_empty=0.2, maxlen=4)
        steps.append([pos, row])
        r = call_real(lambda: tgt.array.__setitem__(pos, df_of_row(row, ty)))
        if "err" in r:
            return
    order = [("a", a), ("b", b)]
    if rng.random() < 0.5:
        order.reverse()
    real, want = {}, {}
    # the summary views of both objects first, one right after the other (nothing in between that could refresh
    # whatever one of them remembers), then every view of each
    quick = {nm: call_real(lambda: {"list_lengths": [int(v) for v in x.nest.list_lengths], "flat_length": int(x.nest.flat_length)})
             for nm, x in order}
    for nm, x in order:
        real[nm] = call_real(lambda: observe(x))
        if "ok" in real[nm]:
            real[nm]["ok"]["asked_first"] = quick[nm]
    for nm, x in order:
        want[nm] = call_real(lambda: observe(fresh_like(x)))
        if "ok" in want[nm]:
            want[nm]["ok"]["asked_first"] = {"ok": {k: want[nm]["ok"][k] for k in ("list_lengths", "flat_length")}}
    for nm, _ in order:
        ctx.case("history.copy_then_setitem", {**s.desc(), "steps": steps, "target": target, "asked_first": order[0][0],
                                               "read_before": read_first, "object": nm}, real[nm], None, want[nm],
                 hyp=s.hyp, features=("construction_history", f"target={target}", f"first={order[0][0]}", f"read_before={read_first}"),
                 nontrivial=True)
