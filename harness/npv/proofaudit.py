"""Build the Lean project and audit the property theorems of one property:
every `theorem` in NPModel/Props/<id>.lean must be accepted by the kernel and depend on no axiom
outside {propext, Classical.choice, Quot.sound}; sources must contain no sorry/admit/axiom/native_decide."""
import os
import re
import subprocess

from .common import VERIF

LEAN_DIR = os.path.join(VERIF, "lean", "NPModel")
ALLOWED = {"propext", "Classical.choice", "Quot.sound"}
FORBIDDEN = re.compile(r"\b(sorry|admit|native_decide|bv_decide|implemented_by)\b|^\s*axiom\s|\bunsafe\s|maxHeartbeats\s+0")
TRUSTED = [
    "Lean 4.33.0 kernel (lake build; leanchecker in the thorough tier)",
    "axioms allowed: propext, Classical.choice, Quot.sound (audited per theorem with #print axioms)",
    "hand-written implementation model NPModel/Impl, tied to /repo by the correspondence check of this run",
    "kernel models of pyarrow/pandas in NPModel/Arrow (assumptions, exercised by the same correspondence)",
    "Python harness: generators, physical export, logical views, JSON codec",
]


def strip_comments(src):
    src = re.sub(r"/-.*?-/", "", src, flags=re.S)
    return "\n".join(l.split("--")[0] for l in src.split("\n"))


def witnesses_of(prop):
    """Lean witness theorems of the known findings recorded for this property"""
    out = []
    path = os.path.join(VERIF, "KNOWN_FINDINGS.txt")
    if os.path.exists(path):
        for line in open(path):
            if line.startswith("known:") and f"property={prop} " in line:
                m = re.search(r"witness=(\S+)", line)
                if m and m.group(1) not in out:
                    out.append(m.group(1))
    return out


def build(prop=None):
    """build the property's theorem module (with everything it imports) and the protocol driver"""
    targets = ["npdriver"] + ([f"NPModel.Props.{prop}"] if prop else [])
    if prop and witnesses_of(prop):
        targets.append("NPModel.Findings")
    r = subprocess.run(["lake", "build"] + targets, cwd=LEAN_DIR, capture_output=True, text=True)
    return r.returncode == 0, (r.stdout + r.stderr)[-3000:]


def theorems_of(prop):
    path = os.path.join(LEAN_DIR, "NPModel", "Props", f"{prop}.lean")
    if not os.path.exists(path):
        return None, []
    src = strip_comments(open(path).read())
    ns = re.search(r"^namespace\s+(\S+)", src, flags=re.M)
    prefix = ns.group(1) + "." if ns else ""
    return path, [prefix + m for m in re.findall(r"^theorem\s+([A-Za-z0-9_.'?!]+)", src, flags=re.M)]


def grep_forbidden():
    hits = []
    for root, _, files in os.walk(os.path.join(LEAN_DIR, "NPModel")):
        for f in files:
            if f.endswith(".lean"):
                p = os.path.join(root, f)
                for i, l in enumerate(strip_comments(open(p).read()).split("\n")):
                    if FORBIDDEN.search(l):
                        hits.append(f"{os.path.relpath(p, LEAN_DIR)}:{i + 1}: {l.strip()[:80]}")
    return hits


def audit(prop, thorough=False):
    """-> dict(ok, obligations, discharged, theorems, broken, detail, checker_cmd, trusted_base)"""
    res = {"ok": True, "obligations": 0, "discharged": 0, "theorems": [], "broken": None, "detail": None,
           "checker_cmd": f"cd lean/NPModel && lake build npdriver NPModel.Props.{prop} && lake env lean .lake/audit/{prop}.lean  (#print axioms of every theorem)",
           "trusted_base": TRUSTED}
    path, thms = theorems_of(prop)
    ok, out = build(prop if path else None)
    if path is None:
        res.update(ok=False, broken=f"NPModel/Props/{prop}.lean missing")
        return res
    wit = witnesses_of(prop)
    thms = thms + wit
    res["obligations"] = len(thms)
    res["finding_witnesses"] = wit
    if not ok:
        res.update(ok=False, broken="lake build", detail=out)
        return res
    bad = grep_forbidden()
    if bad:
        res.update(ok=False, broken="forbidden construct in sources", detail="\n".join(bad[:10]))
        return res
    os.makedirs(os.path.join(LEAN_DIR, ".lake", "audit"), exist_ok=True)
    af = os.path.join(LEAN_DIR, ".lake", "audit", f"{prop}.lean")
    with open(af, "w") as f:
        f.write(f"import NPModel.Props.{prop}\n")
        if wit:
            f.write("import NPModel.Findings\n")
        for t in thms:
            f.write(f"#print axioms {t}\n")
    r = subprocess.run(["lake", "env", "lean", af], cwd=LEAN_DIR, capture_output=True, text=True)
    text = r.stdout + r.stderr
    done = []
    for t in thms:
        m = re.search(re.escape(f"'{t}'") + r" (does not depend on any axioms|depends on axioms: \[([^\]]*)\])", text)
        if not m:
            res.update(ok=False, broken=t, detail=text[-1500:])
            continue
        axs = set() if m.group(2) is None else {a.strip() for a in m.group(2).replace("\n", " ").split(",") if a.strip()}
        if axs <= ALLOWED:
            done.append({"theorem": t, "axioms": sorted(axs)})
        else:
            res.update(ok=False, broken=t, detail=f"axioms {sorted(axs)}")
    res["discharged"] = len(done)
    res["theorems"] = done
    if thorough and res["ok"]:
        mods = [f"NPModel.Props.{prop}"]
        r = subprocess.run(["lake", "env", "leanchecker"] + mods, cwd=LEAN_DIR, capture_output=True, text=True)
        res["leanchecker"] = {"modules": mods, "exit": r.returncode, "tail": (r.stdout + r.stderr)[-300:]}
        if r.returncode != 0:
            res.update(ok=False, broken="leanchecker", detail=(r.stdout + r.stderr)[-1500:])
    return res
