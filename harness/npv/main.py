"""Entry point:  python -m npv.main C05 --tier quick|thorough [--replay FILE]"""
import argparse
import importlib
import json
import os
import sys
import traceback


def main():
    ap = argparse.ArgumentParser()
    ap.add_argument("prop")
    ap.add_argument("--tier", default=os.environ.get("VERIF_TIER", "quick"))
    ap.add_argument("--replay")
    ap.add_argument("--seed", type=int, default=int(os.environ.get("VERIF_SEED", "0") or 0))
    a = ap.parse_args()
    from . import proofaudit
    from .runner import Ctx
    mod = importlib.import_module(f"npv.props.{a.prop.lower()}")
    proof = proofaudit.audit(a.prop, thorough=(a.tier == "thorough"))
    ctx = Ctx(a.prop, a.tier, a.seed)
    try:
        if a.replay:
            rec = json.load(open(a.replay))
            mod.replay(ctx, rec) if hasattr(mod, "replay") else print("replay: re-running the seed of the record")
            ctx.rng.seed(rec.get("seed", a.seed))
        mod.run(ctx)
    except Exception as e:  # noqa: BLE001
        tb = traceback.extract_tb(e.__traceback__)
        repo = os.path.realpath(os.environ.get("NPV_REPO", "/repo"))
        if any(os.path.realpath(fr.filename).startswith(repo + os.sep) for fr in tb):
            # the IMPLEMENTATION raised inside a call the harness makes to set a case up (calls that succeed on
            # the tree the model follows): the correspondence can no longer be run — not a crash of the machinery
            ctx.impl_crash(traceback.format_exc()[-2500:])
        else:
            ctx.framework_error("harness crashed: " + traceback.format_exc()[-1500:])
    code = ctx.finish(proof, level=getattr(mod, "LEVEL", "proof"), assumptions=getattr(mod, "ASSUMPTIONS", ()),
                      extra_cov=getattr(mod, "extra_cov", lambda c: None)(ctx))
    sys.exit(code)


if __name__ == "__main__":
    main()
