"""C14: the dotted name 'nest.field' means the same thing everywhere."""
import keyword

from . import gen, export
from .common import pa, pd, np, NestedFrame, NestedDtype
from .runner import call_real

# incl. names pandas or the library use for their own purposes (index, level_0, self, base)
NESTS = ["n", "my nest", "class", "1st", "n-x", "lc", "N_2", "in", "a", "self", "index", "base"]
# ... and names that differ from another name of the pool only by blanks at their ends ("t " next to "t")
FIELDS = ["a", "b c", "in", "2x", "f/g", "t", "flux", "class", "x", "é", "index", "self", "level_0", "base", "t ", " x"]
DOTTED = ["obs.v2", "a.b"]
# sibling names that pandas' clean_column_name maps to ONE identifier (blank vs underscore next to another special character)
CLEAN_COLLISIONS = [("t obs!", "t_obs!"), ("a b!", "a_b!"), ("t (s)", "t_(s)"), ("d m/y", "d_m/y")]


def ncase(ctx, op, inp, real, model, spec=None, **kw):
    """ctx.case with the hypothesis vector of the frame under test (K10: a nest that is called 'base')"""
    kw.setdefault("hyp", dict(getattr(ctx, "_names_hyp", {})))
    only = getattr(ctx, "_names_only", None)
    if only and op not in only:
        return True        # another property borrows the marker frames for the operations it is about
    return ctx.case(op, inp, real, model, spec, **kw)


def base_layer_model(nf, nest, f):
    """what the tree does with the path of a field of a nest called 'base' in reduce / sort_values / dropna: the layer
    name is taken for the library's own name of the base layer and the lookup of 'base.f' / 'f' among the base columns
    fails (K10); None where a base column of that name exists (no expectation)"""
    if nest != "base" or f in [str(c) for c in nf.columns] or f"base.{f}" in [str(c) for c in nf.columns]:
        return None
    return {"err": "KeyError"}


def clean(name):
    from pandas.core.computation.parsing import clean_column_name
    return clean_column_name(name)


def is_ident(name):
    return name.isidentifier() and not keyword.iskeyword(name)


def bq(name):
    return f"`{name}`"


def spellings(nest, field):
    """(kind, path) — plain is only offered where it is legal for that operation"""
    out = [("quoted", f"{bq(nest)}.{bq(field)}")]
    if "." not in nest and "." not in field:
        out.append(("plain", f"{nest}.{field}"))
    if is_ident(nest):
        out.append(("half", f"{nest}.{bq(field)}"))
    return out


def build_frame(ctx, collide=None):
    """a frame whose every column/field carries marker values that identify it"""
    rng = ctx.rng
    nests = rng.sample([x for x in NESTS if not (collide == "field_a" and x == "a")], 2)
    # every fourth frame (both tiers) has a nested column whose own name contains a dot
    k_frame = getattr(ctx, "_names_frames", 0)
    ctx._names_frames = k_frame + 1
    if k_frame % 4 == 3 or (ctx.tier == "thorough" and rng.random() < 0.2):
        nests[0] = rng.choice(DOTTED)
    n_rows = 3
    lens = rng.choice([[2, 0, 3], [2, 0, 3], [2, 1, 3]])   # sometimes every row has records (flat labels = frame labels)
    total = sum(lens)
    index = [10, 20, 30]
    flat_index = [l for l, k in zip(index, lens) for _ in range(k)]
    nf = NestedFrame({"x": np.array([1.5, 2.5, 3.5]), "base col": np.array([7, 8, 9])}, index=pd.Index(index))
    schema = {}
    markers = {}
    ctx._names_hyp = {"nest_named_base": "base" in nests}
    for k, nest in enumerate(nests):
        fields = rng.sample(FIELDS, rng.randint(2, 3))
        if collide == "field_a" and k == 0 and "a" not in fields:
            fields[0] = "a"
        if collide is None and k == 0 and rng.random() < 0.3:
            # two sibling fields whose cleaned names coincide, in either order, ahead of the others
            pair = list(rng.choice(CLEAN_COLLISIONS))
            rng.shuffle(pair)
            fields = pair + fields[:1]
        d = {}
        for j, f in enumerate(fields):
            vals = [float(1000 * (k + 1) + 100 * (j + 1) + r) for r in range(total)]
            # one null per field, at a position that identifies the field
            nullpos = (j + k) % total
            markers[(nest, f)] = {"vals": vals, "nullpos": nullpos}
            arr = pa.array([None if r == nullpos else v for r, v in enumerate(vals)], type=pa.float64())
            d[f] = pd.Series(arr, dtype=pd.ArrowDtype(pa.float64()), index=pd.Index(flat_index))
        nf = nf.add_nested(pd.DataFrame(d), nest)
        schema[nest] = fields
    base_extra = []
    if collide == "field_a":
        nf["a"] = np.array([-1.0, -2.0, -3.0])       # a base column 'a' beside a field 'a'
        base_extra.append("a")
    if collide == "literal_dotted":
        nest0 = nests[0]
        f0 = schema[nest0][0]
        lit = f"{nest0}.{f0}"
        pd.DataFrame.__setitem__(nf, lit, np.array([-10.0, -20.0, -30.0]))   # a base column literally named 'n.f'
        base_extra.append(lit)
    return nf, schema, markers, lens, base_extra


def field_vals(markers, nest, f):
    m = markers[(nest, f)]
    return [None if r == m["nullpos"] else v for r, v in enumerate(m["vals"])]


def schema_json(nf, schema):
    return {"base": [str(c) for c in nf.columns], "nested": [[n, fs] for n, fs in schema.items()]}


def clean_table(names):
    return [[n, clean(n)] for n in names]


def case_paths(ctx, collide=None, only=None):
    ctx._names_only = only
    try:
        return _case_paths(ctx, collide)
    finally:
        ctx._names_only = None


def _case_paths(ctx, collide=None):
    rng = ctx.rng
    nf, schema, markers, lens, base_extra = build_frame(ctx, collide)
    sj = schema_json(nf, schema)
    all_names = list(schema) + [f for fs in schema.values() for f in fs] + [str(c) for c in nf.columns]
    ct = clean_table(sorted(set(all_names)))
    total = sum(lens)
    # listing consistent with the schema
    real = call_real(lambda: {"nested_columns": list(nf.nested_columns),
                              "all_columns": {k: [str(x) for x in v] for k, v in nf.all_columns.items()},
                              "fields": {n: list(nf[n].nest.fields) for n in schema}})
    exp = {"nested_columns": list(schema), "all_columns": {"base": [str(c) for c in nf.columns], **schema}, "fields": schema}
    ncase(ctx, "names.listing", {"schema": sj}, real, None, {"ok": exp}, features=("listing", str(collide)))
    for nest, fields in schema.items():
        for f in fields:
            want = field_vals(markers, nest, f)
            for kind, p in spellings(nest, f):
                feats = (kind, str(collide), f"ident={is_ident(nest) and is_ident(f)}")
                # a base column literally named 'nest.field' takes precedence in item access, however the path is spelled
                shadowed = f"{nest}.{f}" in [str(c) for c in nf.columns]
                inp = {"path": p, "schema": sj}
                # parse: real vs model
                m = ctx.driver.call("names.parse", path=p, clean=ct)["model"]
                real = call_real(lambda: list(nf._parse_hierarchical_components(p)))
                ncase(ctx, "names.parse", inp, real, m, {"ok": [nest, f]}, features=feats)
                # 1. item access
                mg = ctx.driver.call("names.getitem", path=p, clean=ct, schema=sj)["model"]
                real = call_real(lambda: [None if v is None else float(v) for v in pa.array(nf[p]).to_pylist()])
                if shadowed:
                    spec = {"ok": [float(v) for v in pd.DataFrame.__getitem__(nf, f"{nest}.{f}").tolist()]}
                    mexp = {"column": f"{nest}.{f}"}
                else:
                    spec = {"ok": want}
                    mexp = {"field": [nest, f]}
                ncase(ctx, "names.getitem", inp, real, None, spec, features=feats)
                # the known-column tests the operations share (used e.g. by reduce to tell columns from extra arguments)
                mk = ctx.driver.call("names.known", path=p, clean=ct, schema=sj)["model"]
                ncase(ctx, "names.known", inp, call_real(lambda: {"column": bool(nf._is_known_column(p)),
                                                                "hierarchical": bool(nf._is_known_hierarchical_column(p))}),
                         mk, None, features=feats)
                ncase(ctx, "names.getitem.resolution", inp, {"ok": mexp if "ok" in real else {"err": True}}, {"ok": mg if "err" not in mg else {"err": True}},
                         None, features=feats)
                if shadowed:
                    continue
                # 2. item assignment: replaces that field and nothing else
                newv = [v * -1.0 for v in markers[(nest, f)]["vals"]]

                def setit():
                    nf2 = nf.copy()
                    nf2[p] = np.array(newv)
                    out = {}
                    for (nn, ff) in markers:
                        out[f"{nn}|{ff}"] = [None if v is None else float(v) for v in pa.array(nf2[nn].nest[ff]).to_pylist()]
                    out["columns"] = [str(c) for c in nf2.columns]
                    return out
                exp = {f"{nn}|{ff}": (newv if (nn, ff) == (nest, f) else field_vals(markers, nn, ff)) for (nn, ff) in markers}
                exp["columns"] = [str(c) for c in nf.columns]
                ncase(ctx, "names.setitem", inp, call_real(setit), None, {"ok": exp}, features=feats)
                ms = ctx.driver.call("names.setitem", path=p, clean=ct, schema=sj)["model"]
                ncase(ctx, "names.setitem.resolution", inp, {"ok": {"field": [nest, f]}}, {"ok": ms}, None, features=feats)
                # 5. reduce
                def red():
                    got = []
                    def fun(a):
                        a = np.asarray(a, dtype=float)
                        got.append([] if a.ndim == 0 else [None if v != v else float(v) for v in a.tolist()])
                        return {"k": 0}
                    nf.reduce(fun, p)
                    return sum(got, [])
                ncase(ctx, "names.reduce", inp, call_real(red), base_layer_model(nf, nest, f), {"ok": want}, features=feats)
                # 6. sort_values: ordered by that field inside every row
                def srt():
                    r = nf.sort_values(p)
                    return [None if v is None else float(v) for v in pa.array(r[nest].nest[f]).to_pylist()]
                exp_sorted, k = [], 0
                for ln in lens:
                    seg = want[k:k + ln]
                    k += ln
                    exp_sorted += sorted([v for v in seg if v is not None]) + [v for v in seg if v is None]
                ncase(ctx, "names.sort_values", inp, call_real(srt), base_layer_model(nf, nest, f), {"ok": exp_sorted}, features=feats)
                # 7. dropna(subset=path): removes exactly the record where THAT field is null
                def drp():
                    r = nf.dropna(subset=p)
                    return [None if v is None else float(v) for v in pa.array(r[nest].nest[f]).to_pylist()]
                ncase(ctx, "names.dropna", inp, call_real(drp), base_layer_model(nf, nest, f), {"ok": [v for v in want if v is not None]}, features=feats)
                # 3./4. query and eval need expression syntax: quoted parts, or identifiers
                if kind == "quoted" or (kind == "plain" and is_ident(nest) and is_ident(f)) or (kind == "half"):
                    thr = markers[(nest, f)]["vals"][1]
                    # the same condition with the path under a unary operator / function: the layer it filters is the
                    # layer the path names, however the path is wrapped
                    qform = rng.choice(["{p} > {thr}", "~({p} <= {thr})", "not ({p} <= {thr})", "-{p} < -{thr}",
                                        "abs({p}) > {thr}"]).format(p=p, thr=thr)
                    def qry():
                        r = nf.query(qform)
                        return [None if v is None else float(v) for v in pa.array(r[nest].nest[f]).to_pylist()]
                    ncase(ctx, "names.query", {**inp, "query": qform}, call_real(qry), None,
                             {"ok": [v for v in want if v is not None and v > thr]}, features=feats + (qform.split("{")[0][:4],))
                    def evl():
                        r = nf.eval(f"{p} + 0")
                        return [None if v is None else float(v) for v in pa.array(r).to_pylist()]
                    ncase(ctx, "names.eval", inp, call_real(evl), None, {"ok": want}, features=feats)
                    def evl_assign():
                        r = nf.eval(f"{p} = {p} * 2")
                        return [None if v is None else float(v) for v in pa.array(r[nest].nest[f]).to_pylist()]
                    ncase(ctx, "names.eval_assign", inp, call_real(evl_assign), None,
                             {"ok": [None if v is None else v * 2 for v in want]}, features=feats)
    # two sibling fields whose cleaned names coincide, BOTH named in one expression (K11: one alias per cleaned name)
    for nest, fields in schema.items():
        pair = [f for f in fields if any(g != f and clean(g) == clean(f) for g in fields)]
        if len(pair) == 2:
            a, b = pair if rng.random() < 0.5 else pair[::-1]
            va, vb = field_vals(markers, nest, a), field_vals(markers, nest, b)
            expr = f"{bq(nest)}.{bq(a)} + {bq(nest)}.{bq(b)}"
            def both():
                return [None if v is None else float(v) for v in pa.array(nf.eval(expr)).to_pylist()]
            spec = [None if x is None or y is None else x + y for x, y in zip(va, vb)]
            as_tree = [None if y is None else y + y for y in vb]    # both names resolve to the one recorded last
            ncase(ctx, "names.eval_two_colliding", {"expr": expr, "schema": sj}, call_real(both), {"ok": as_tree}, {"ok": spec},
                  hyp={**dict(getattr(ctx, "_names_hyp", {})), "clean_collision_both": True}, features=("clean_collision_both",))
    # unknown paths: an error in every reading operation, never a silent resolution
    nest0 = list(schema)[0]
    unknown = [f"{nest0}.nofield", f"nonest.{schema[nest0][0]}", f"{bq(nest0)}.`no field`", "nonest.nofield", f"{nest0}.{schema[nest0][0]}.deep"]
    for p in unknown:
        if p in [str(c) for c in nf.columns]:
            continue
        outcomes = {
            "getitem": call_real(lambda: len(nf[p])),
            "reduce": call_real(lambda: len(nf.reduce(lambda a: {"k": 0}, p))),
            "sort_values": call_real(lambda: len(nf.sort_values(p))),
            "dropna": call_real(lambda: len(nf.dropna(subset=p))),
            "query": call_real(lambda: len(nf.query(f"{p} > 0"))) if "`no" not in p or True else None,
            "eval": call_real(lambda: len(nf.eval(f"{p} + 0"))),
        }
        mg = ctx.driver.call("names.getitem", path=p, clean=ct, schema=sj)["model"]
        for opn, r in outcomes.items():
            ncase(ctx, f"names.unknown.{opn}", {"path": p, "schema": sj}, r, ({"err": True} if opn == "getitem" and "err" in mg else None),
                     {"err": "KeyError"}, features=("unknown",), spec_ok="err" in r)


def case_after_failed_calls(ctx):
    """a path means the same after calls that failed: failing eval / query, then quoted paths everywhere"""
    rng = ctx.rng
    nf, schema, markers, lens, _ = build_frame(ctx)
    nest = next((n for n in schema if not is_ident(n)), list(schema)[0])
    f = next((x for x in schema[nest] if not is_ident(x)), schema[nest][0])
    p = f"{bq(nest)}.{bq(f)}"
    want = field_vals(markers, nest, f)
    failing = rng.choice([
        ("eval_undefined", lambda: nf.eval(f"{p} + undefined_name_xyz")),
        ("eval_unknown_field", lambda: nf.eval(f"{bq(nest)}.`no such` + 1")),
        ("query_undefined", lambda: nf.query(f"{p} > undefined_name_xyz")),
        ("query_unknown_field", lambda: nf.query(f"{bq(nest)}.`no such` > 1")),
        ("query_syntax", lambda: nf.query(f"{p} > > 1")),
        ("eval_assign_bad", lambda: nf.eval(f"{p} = {p} + undefined_name_xyz")),
        ("query_mixed", lambda: nf.query(f"{p} > 0 and x > 0")),
    ])
    r = call_real(failing[1])
    probes = {
        "getitem": lambda g: [None if v is None else float(v) for v in pa.array(g[p]).to_pylist()],
        "sort_values": lambda g: len(g.sort_values(p)),
        "dropna": lambda g: [None if v is None else float(v) for v in pa.array(g.dropna(subset=p)[nest].nest[f]).to_pylist()],
        "reduce": lambda g: len(g.reduce(lambda a: {"k": 0}, p)),
        "eval": lambda g: [None if v is None else float(v) for v in pa.array(g.eval(f"{p} + 0")).to_pylist()],
        "aliases_attr": lambda g: getattr(g, "_aliases", None) is None,
    }
    exp = {"getitem": want, "sort_values": 3, "dropna": [v for v in want if v is not None], "reduce": 3, "eval": want,
           "aliases_attr": True}
    for who, g in (("same_object", nf), ("copy", nf.copy())):
        for name, fn in probes.items():
            real = call_real(lambda: fn(g))
            ncase(ctx, f"names.after_failed.{name}", {"path": p, "failed": failing[0], "failed_outcome": str(r)[:80], "on": who},
                     real, None, {"ok": exp[name]}, features=(failing[0], who))


def case_reduce_many_paths(ctx):
    """several paths in ONE reduce call — also paths that end in the same name in different layers (a base column
    'a', the field 'a' of a nest, the field 'a' of another nest): every argument is the column item access gives"""
    rng = ctx.rng
    nf, schema, markers, lens, base_extra = build_frame(ctx, collide="field_a")
    nests = list(schema)
    # make the second nest share a field name with the first
    shared = schema[nests[0]][0]          # 'a' (the collision case puts it first)
    if shared not in schema[nests[1]]:
        vals = [float(5000 + r) for r in range(sum(lens))]
        nf[f"{bq(nests[1])}.{bq(shared)}"] = np.array(vals)
        schema[nests[1]] = schema[nests[1]] + [shared]
        markers[(nests[1], shared)] = {"vals": vals, "nullpos": None}
    cands = [("base", None, "a"), ("base", None, "x")] + [("field", n, f) for n in nests for f in schema[n]]
    picks = rng.sample(cands, rng.randint(2, min(4, len(cands))))
    # always one clash of leaf names across layers
    if not any(k == "field" and f == shared for k, n, f in picks):
        picks.append(("field", nests[0], shared))
    if not any((k == "base" and f == "a") or (k == "field" and n == nests[1] and f == shared) for k, n, f in picks):
        picks.append(rng.choice([("base", None, "a"), ("field", nests[1], shared)]))
    rng.shuffle(picks)
    args = [f if k == "base" else f"{bq(n)}.{bq(f)}" for k, n, f in picks]

    def flat(v, layer):
        a = np.asarray(v, dtype=float)
        if a.ndim == 0:
            # a base value, or what a nested argument is for a row without records (not constrained here)
            return [float(a.item())] if layer == "base" else []
        return [None if x != x else float(x) for x in a.tolist()]

    def run():
        got = [[] for _ in picks]

        def fun(*a):
            for j, x in enumerate(a):
                got[j].append(flat(x, picks[j][0]))
            return {"k": 0}
        nf.reduce(fun, *args)
        return got
    # expected: per row, what item access denotes
    exp = []
    for k, n, f in picks:
        if k == "base":
            exp.append([[float(v)] for v in pd.DataFrame.__getitem__(nf, f).tolist()])
        else:
            col = [None if v is None else float(v) for v in pa.array(nf[f"{bq(n)}.{bq(f)}"]).to_pylist()]
            rows, kk = [], 0
            for ln in lens:
                rows.append(col[kk:kk + ln])
                kk += ln
            exp.append(rows)
    ncase(ctx, "names.reduce_many", {"args": args, "schema": schema_json(nf, schema)}, call_real(run), None, {"ok": exp},
             features=("reduce_many", f"n={len(picks)}"), nontrivial=True)


def case_eval_statements(ctx):
    """a field written by one statement of an eval is THE field later statements, item access and the listing mean"""
    rng = ctx.rng
    nf, schema, markers, lens, _ = build_frame(ctx)
    nest = rng.choice(list(schema))
    f = rng.choice(schema[nest])
    g = rng.choice([x for x in schema[nest] if x != f] or [f])
    p, pg = f"{bq(nest)}.{bq(f)}", f"{bq(nest)}.{bq(g)}"
    new = f"{bq(nest)}.`d e`" if rng.random() < 0.5 else f"{bq(nest)}.dnew"
    newname = "d e" if "d e" in new else "dnew"
    prog = rng.choice([
        f"{p} = {p} + 1\n{new} = {p} * 2",                 # overwrite an existing field, then read it
        f"{p} = {pg} * 0 + 7\n{new} = {p} + {pg}",
        f"{new} = {p} + 1\n{p} = {new} * 2\n{new} = {p} - 1",
    ])
    inplace = True

    def run():
        nf2 = nf.copy()
        nf2.eval(prog, inplace=inplace)
        cols = {}
        for ff in list(schema[nest]) + [newname]:
            cols[ff] = [None if v is None else float(v) for v in pa.array(nf2[f"{bq(nest)}.{bq(ff)}"]).to_pylist()]
        cols["fields"] = list(nf2[nest].nest.fields)
        return cols
    # expected by running the statements one at a time through item access / item assignment
    env = {ff: [None if v is None else float(v) for v in pa.array(nf[f"{bq(nest)}.{bq(ff)}"]).to_pylist()] for ff in schema[nest]}
    fields = list(schema[nest])

    sym = {p: f, pg: g, new: newname}

    def toks_of(expr):
        for k, spelling in enumerate(sorted(sym, key=len, reverse=True)):
            expr = expr.replace(spelling, f"@{k}@")
        out = []
        for t in expr.split(" "):
            if t.startswith("@"):
                out.append(("field", sym[sorted(sym, key=len, reverse=True)[int(t.strip("@"))]]))
            else:
                out.append(("tok", t))
        return out

    def val(t):
        return env[t[1]] if t[0] == "field" else [float(t[1])] * sum(lens)

    def ev(expr):
        toks = toks_of(expr)
        acc = val(toks[0])
        i = 1
        while i < len(toks):
            op, b = toks[i][1], val(toks[i + 1])
            acc = [None if (x is None or y is None) else (x + y if op == "+" else x - y if op == "-" else x * y) for x, y in zip(acc, b)]
            i += 2
        return acc
    for line in prog.split("\n"):
        lhs, rhs = line.split(" = ")
        tgt = sym[lhs]
        env[tgt] = ev(rhs)
        if tgt not in fields:
            fields.append(tgt)
    exp = {ff: env[ff] for ff in list(schema[nest]) + [newname]}
    exp["fields"] = fields
    # K11: a statement that names BOTH of two sibling fields whose cleaned names coincide
    pairs = [(f, g) for fs in schema.values() for f in fs for g in fs if f < g and clean(f) == clean(g)]
    both = any(bq(f) in line and bq(g) in line for line in prog.split("\n") for f, g in pairs)
    ncase(ctx, "names.eval_statements", {"program": prog, "schema": schema_json(nf, schema)}, call_real(run), None, {"ok": exp},
             hyp={**dict(getattr(ctx, "_names_hyp", {})), "clean_collision_both": both},
             features=("eval_statements", f"clean_collision_both={both}"), nontrivial=True)


def case_keys_across_nests(ctx):
    """sort keys / dropna subsets naming fields of DIFFERENT nests are refused — never read as fields of the first nest"""
    rng = ctx.rng
    nf, schema, markers, lens, _ = build_frame(ctx, collide="field_a")
    n1, n2 = list(schema)[:2]
    shared = schema[n1][0]
    if shared not in schema[n2]:
        nf[f"{bq(n2)}.{bq(shared)}"] = np.array([float(7000 + r) for r in range(sum(lens))])
        schema[n2] = schema[n2] + [shared]
    before = {n: [None if v is None else float(v) for v in pa.array(nf[f"{bq(n)}.{bq(shared)}"]).to_pylist()] for n in (n1, n2)}
    f2 = rng.choice(schema[n2])
    keys = [f"{bq(n1)}.{bq(shared)}", f"{bq(n2)}.{bq(f2)}"]
    if rng.random() < 0.5:
        keys.reverse()
    for opn, fn in (("sort_values", lambda: nf.sort_values(keys)), ("dropna", lambda: nf.dropna(subset=keys))):
        real = call_real(lambda: (fn(), "returned")[1])
        ncase(ctx, f"names.across_nests.{opn}", {"keys": keys, "schema": schema_json(nf, schema)}, real, None, {"err": "ValueError"},
                 features=("across_nests", opn), spec_ok="err" in real, nontrivial=True)


def case_literal_dotted_nonfield(ctx):
    """a base column literally named 'nest.x' where x is NOT a field of the nest: item access gives that column; every
    other operation either refuses the path or means the same column — never some other field of the nest"""
    rng = ctx.rng
    nf, schema, markers, lens, _ = build_frame(ctx)
    nest = rng.choice([n for n in schema if "." not in n] or list(schema))
    lit = f"{nest}.snr_x"
    vals = [-11.0, -22.0, -33.0]
    pd.DataFrame.__setitem__(nf, lit, np.array(vals))
    want = {"ok": vals}
    real = call_real(lambda: [float(v) for v in nf[lit].tolist()])
    ncase(ctx, "names.literal_nonfield.getitem", {"path": lit, "schema": schema_json(nf, schema)}, real, None, want,
             features=("literal_nonfield",), nontrivial=True)

    def red():
        got = []

        def fun(a):
            a = np.asarray(a, dtype=float)
            got.append([float(a.item())] if a.ndim == 0 else [None if v != v else float(v) for v in a.tolist()])
            return {"k": 0}
        nf.reduce(fun, lit)
        return sum(got, [])
    r = call_real(red)
    ncase(ctx, "names.literal_nonfield.reduce", {"path": lit, "schema": schema_json(nf, schema)}, r, None, want,
             features=("literal_nonfield",), spec_ok=("err" in r or r == want), nontrivial=True)
    for opn, fn in (("sort_values", lambda: nf.sort_values(lit)), ("dropna", lambda: nf.dropna(subset=lit)),
                    ("query", lambda: nf.query(f"`{lit}` < 0"))):
        def run(fn=fn):
            out = fn()
            # whatever it did, the nest's own fields hold the values they held (as multisets per field: a base-level
            # sort may move rows)
            return {f: sorted((x is None, x or 0.0) for x in [None if v is None else float(v) for v in pa.array(out[nest].nest[f]).to_pylist()])
                    for f in schema[nest]}
        r = call_real(run)
        exp = {f: sorted((x is None, x or 0.0) for x in field_vals(markers, nest, f)) for f in schema[nest]}
        exp = json_roundtrip(exp)
        ncase(ctx, f"names.literal_nonfield.{opn}", {"path": lit, "schema": schema_json(nf, schema)},
                 r if "err" in r else {"ok": json_roundtrip(r["ok"])}, None, {"ok": exp},
                 features=("literal_nonfield", opn), spec_ok=("err" in r or json_roundtrip(r["ok"]) == exp), nontrivial=True)


def json_roundtrip(x):
    import json
    return json.loads(json.dumps(x))


def run_all(ctx):
    for i in range(ctx.budget(20, 200)):
        case_after_failed_calls(ctx)
    for i in range(ctx.budget(12, 120)):
        case_keys_across_nests(ctx)
        case_literal_dotted_nonfield(ctx)
    for i in range(ctx.budget(25, 250)):
        case_reduce_many_paths(ctx)
        case_eval_statements(ctx)
        case_parquet_paths(ctx)
    for i in range(ctx.budget(12, 120)):
        case_paths(ctx, collide=[None, "field_a", "literal_dotted", None][i % 4])


def case_parquet_paths(ctx):
    """paths in a parquet column selection: `nest.field` entries of two nests interleaved with base columns name
    exactly those fields / columns — what item access gives for the same paths"""
    import io
    import itertools
    from nested_pandas import read_parquet
    rng = ctx.rng
    nf, schema, markers, lens, base_extra = build_frame(ctx)
    if any("." in n for n in schema) or base_extra:
        return
    nests = list(schema)
    l0 = [f"{nests[0]}.{f}" for f in schema[nests[0]]]
    l1 = [f"{nests[1]}.{f}" for f in schema[nests[1]]]
    inter = [x for pair in itertools.zip_longest(l0, l1) for x in pair if x]
    base = rng.sample(["x", "base col"], rng.randint(1, 2))
    pos = rng.randint(0, len(inter))
    cols = inter[:pos] + base[:1] + inter[pos:] + base[1:]
    if rng.random() < 0.5:
        rng.shuffle(cols)

    def run():
        buf = io.BytesIO()
        nf.to_parquet(buf)
        buf.seek(0)
        r = read_parquet(buf, columns=cols)
        out = {"columns": sorted(str(c) for c in r.columns if not str(c).startswith("__index_level")),
               "fields": {n: sorted(r[n].nest.fields) for n in nests if n in r.columns and isinstance(r[n].dtype, NestedDtype)}}
        vals = {}
        for p in cols:
            v = r[p]
            vals[p] = [None if x is None or x != x else float(x) for x in pa.array(v).to_pylist()]
        out["values"] = vals
        return out
    exp = {"columns": sorted(set(base) | set(nests)), "fields": {n: sorted(schema[n]) for n in nests}, "values": {}}
    for p in cols:
        v = nf[p] if p not in ("x", "base col") else pd.DataFrame.__getitem__(nf, p)
        exp["values"][p] = [None if x is None or x != x else float(x) for x in pa.array(v).to_pylist()]
    ncase(ctx, "names.parquet_selection", {"columns": cols, "schema": schema_json(nf, schema)}, call_real(run), None, {"ok": exp},
             features=("parquet_selection", f"k={len(cols)}"), nontrivial=True)
