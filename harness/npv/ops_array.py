"""O/P-tier cases for the array level (ext_array.py) and the .nest accessor (accessor.py)."""
import pickle

from . import gen, export
from .common import pa, pd, np, weak_rows, weak, dec_cell, TYPES, NestedExtensionArray, NestedFrame
from .runner import call_real
from .subject import Subject


def colres(ext):
    v = export.col_view(ext)
    return {"ty": v["ty"], "rows": weak_rows(v["rows"])}


def mcol(j):
    """model/spec column result -> comparable form"""
    if j is None or "err" in j:
        return j
    c = j["ok"]
    return {"ok": {"ty": c["ty"], "rows": weak_rows(c["rows"])}}


def okmap(r, f):
    return {"ok": f(r["ok"])} if "ok" in r else r


def df_of_row(row, ty, rng=None):
    """protocol row -> the pandas object a user would assign: a DataFrame, or a dict of arrays when
    the row is ragged (a DataFrame cannot be ragged), or None.  With `rng`, the table's columns come in
    another order than the fields every other time (a table names its columns: the order means nothing)"""
    if row is None:
        return None
    tymap = dict(map(tuple, ty))
    d = {}
    if rng is not None and len(row) > 1 and rng.random() < 0.5:
        row = list(row)
        rng.shuffle(row)
    for n, cells in row:
        t = tymap.get(n, "int64")
        d[n] = pd.Series(gen.flat_array(cells, t), dtype=pd.ArrowDtype(TYPES[t]))
    if len({len(v) for v in d.values()}) > 1:
        return {n: pa.array(v) for n, v in d.items()}
    return pd.DataFrame(d)


# ---- observers (C03) -------------------------------------------------------------------------

def case_observers(ctx, s: Subject):
    ext = s.fresh_ext()
    ans = ctx.driver.call("observers", col=s.phys)
    model, spec = ans["model"], ans["spec"]

    def obs(name, f):
        real = call_real(f)
        m = model[name]
        sp = spec[name]
        if not (isinstance(m, dict) and ("ok" in m or "err" in m)):
            m, sp = {"ok": m}, {"ok": sp}
        ctx.case(f"observe.{name}", s.desc(), real, m, sp, hyp=s.hyp, features=s.features, nontrivial=s.nontrivial())

    model["rows"] = weak_rows(model["rows"])
    spec["rows"] = weak_rows(spec["rows"])
    obs("len", lambda: len(ext))
    obs("isna", lambda: [bool(x) for x in ext.isna()])
    obs("rows", lambda: weak_rows(export.rows_view(ext)))
    obs("listLengths", lambda: [int(x) for x in ext.list_lengths])
    obs("flatLength", lambda: int(ext.flat_length))
    obs("listOffsetsDiff", lambda: [int(x) for x in np.diff(np.asarray(ext.list_offsets))])
    obs("listOffsetsFirst", lambda: int(np.asarray(ext.list_offsets)[0]))
    obs("fieldNames", lambda: list(ext.field_names))
    obs("getListIndex", lambda: [int(x) for x in ext.get_list_index()])


def case_views(ctx, s: Subject):
    """accessor views: to_flat, get_flat_index, get_flat_series, to_lists (relation), iteration by position"""
    ser = s.series()
    sj = s.series_json()
    # to_flat
    fields = None
    if ctx.rng.random() < 0.4:
        names = [n for n, _ in s.ty]
        fields = ctx.rng.sample(names, ctx.rng.randint(1, len(names)))
    ans = ctx.driver.call("toFlat", series=sj, fields=fields)
    real = call_real(lambda: export.flat_df_view(ser.nest.to_flat(fields)))
    ctx.case("nest.to_flat", {**s.desc(), "fields": fields}, real, ans["model"], ans["spec"], hyp=s.hyp,
             features=s.features, nontrivial=s.nontrivial())
    ans = ctx.driver.call("getFlatIndex", series=sj)
    real = call_real(lambda: export.labels(ser.nest.get_flat_index()))
    ctx.case("nest.get_flat_index", s.desc(), real, ans["model"], ans["spec"], hyp=s.hyp, features=s.features,
             nontrivial=s.nontrivial())
    f = ctx.rng.choice([n for n, _ in s.ty])
    t = dict(map(tuple, s.ty))[f]
    ans = ctx.driver.call("getFlatSeries", series=sj, field=f)

    def flat_series():
        fs = ser.nest[f]
        arr = pa.array(fs)
        return {"index": export.labels(fs.index), "vals": export.arrow_values_to_cells(arr, t)}
    real = call_real(flat_series)
    ctx.case("nest.get_flat_series", {**s.desc(), "field": f}, real, ans["model"], ans["spec"], hyp=s.hyp,
             features=s.features, nontrivial=s.nontrivial())
    # to_lists: spec is a relation — per row the field's list; a missing row may show NA or []
    ans = ctx.driver.call("toLists", series=sj, fields=fields)
    real = call_real(lambda: export.list_df_view(ser.nest.to_lists(fields)))
    ok = True
    if "ok" in real:
        want_fields = fields or [n for n, _ in s.ty]
        got = real["ok"]
        ok = [c[0] for c in got["cols"]] == want_fields and got["index"] == export.labels(ser.index)
        for c in got["cols"]:
            for i, r in enumerate(s.content["rows"]):
                if r is None:
                    ok = ok and c[2][i] in (None, [])
                else:
                    exp = dict(map(tuple, r))[c[0]]
                    ok = ok and c[2][i] == exp
    else:
        ok = False
    ctx.case("nest.to_lists", {**s.desc(), "fields": fields}, real, ans["model"], None, hyp=s.hyp, features=s.features,
             spec_ok=ok, nontrivial=s.nontrivial())


# ---- selection (C05) -------------------------------------------------------------------------

def rand_key(rng, n, valid=True):
    k = rng.choice(["int", "slice", "slice", "mask", "ints"])
    if k == "int":
        if n == 0 or not valid:
            return {"k": "int", "i": rng.choice([n, -n - 1, n + 2])}
        return {"k": "int", "i": rng.randint(-n, n - 1)}
    if k == "slice":
        def b():
            return None if rng.random() < 0.3 else rng.randint(-n - 2, n + 2)
        st = rng.choice([None, 1, 1, 2, -1, -2, 3])
        return {"k": "slice", "a": b(), "b": b(), "s": st}
    if k == "mask":
        m = [rng.random() < 0.5 for _ in range(n if valid else n + 1)]
        return {"k": "mask", "m": m}
    cnt = rng.randint(0, n + 2) if n else 0
    if not valid:
        return {"k": "ints", "is": [n + 1]}
    return {"k": "ints", "is": [rng.randint(-n, n - 1) for _ in range(cnt)]}


def py_key(key):
    k = key["k"]
    if k == "int":
        return key["i"]
    if k == "slice":
        return slice(key["a"], key["b"], key["s"])
    if k == "mask":
        return np.array(key["m"], dtype=bool)
    return np.array(key["is"], dtype=np.int64)


def case_getitem(ctx, s: Subject, valid=True):
    n = len(s.content["rows"])
    key = rand_key(ctx.rng, n, valid)
    ext = s.fresh_ext()

    def run():
        r = ext[py_key(key)]
        if isinstance(r, NestedExtensionArray):
            return {"col": colres(r)}
        return {"row": weak_rows([export.row_view(r, s.ty)])[0]}
    real = call_real(run)
    ans = ctx.driver.call("getItem", col=s.phys, key=key)

    def norm(j):
        if j is None or "err" in j:
            return j
        v = j["ok"]
        if "col" in v:
            return {"ok": {"col": {"ty": v["col"]["ty"], "rows": weak_rows(v["col"]["rows"])}}}
        return {"ok": {"row": weak_rows([v["row"]])[0]}}
    ctx.case(f"getitem.{key['k']}", {**s.desc(), "key": key}, real, norm(ans["model"]), norm(ans["spec"]), hyp=s.hyp,
             features=s.features + (f"key={key['k']}",), nontrivial=s.nontrivial())


def case_take(ctx, s: Subject):
    rng = ctx.rng
    n = len(s.content["rows"])
    allow_fill = rng.random() < 0.5
    cnt = rng.randint(0, n + 2)
    lo = -1 if allow_fill else -n
    idx = [rng.randint(lo, n - 1) if n else -1 for _ in range(cnt)]
    shape = "random"
    if n and rng.random() < 0.35:
        # ascending positions (what label lookups and sorted selections ask for): runs, repeats next to gaps
        idx = sorted(rng.randrange(n) for _ in range(cnt))
        shape = "ascending"
    if rng.random() < 0.15:
        idx.append(rng.choice([n, n + 1, -n - 1, -2]))
    fill = None
    if allow_fill and rng.random() < 0.5:
        fill = gen.rand_row(rng, s.ty, p_missing=0.0)
    ext = s.fresh_ext()
    real = call_real(lambda: colres(ext.take(np.array(idx, dtype=np.int64), allow_fill=allow_fill,
                                             fill_value=df_of_row(fill, s.ty, rng))))
    ans = ctx.driver.call("take", col=s.phys, indices=idx, allowFill=allow_fill, fill=fill)
    ctx.case("take", {**s.desc(), "indices": idx, "allow_fill": allow_fill, "fill": fill}, real, mcol(ans["model"]),
             mcol(ans["spec"]), hyp=s.hyp, features=s.features + (f"fill={allow_fill}", f"positions={shape}"), nontrivial=s.nontrivial())


def ragged_row(rng, ty):
    row = gen.rand_row(rng, ty, p_missing=0, p_empty=0)
    if len(ty) < 2:
        return None
    j = rng.randrange(len(ty))
    row[j][1] = row[j][1] + [gen.rand_cell(rng, ty[j][1])]
    return row


def case_setitem(ctx, s: Subject, ragged=False):
    rng = ctx.rng
    n = len(s.content["rows"])
    key = rand_key(rng, n)
    if key["k"] == "ints":
        # distinct targets (the property's domain)
        seen, out = set(), []
        for i in key["is"]:
            p = i % n if n else 0
            if p not in seen:
                seen.add(p)
                out.append(i)
        key["is"] = out
    # number of targets
    if key["k"] == "int":
        cnt = 1
    elif key["k"] == "slice":
        cnt = len(range(*slice(key["a"], key["b"], key["s"]).indices(n)))
    elif key["k"] == "mask":
        cnt = sum(key["m"])
    else:
        cnt = len(key["is"])
    scalar = key["k"] == "int" or rng.random() < 0.4

    def mkrow():
        if ragged and rng.random() < 0.7:
            r = ragged_row(rng, s.ty)
            if r is not None:
                return r
        return gen.rand_row(rng, s.ty, p_missing=0.2, p_empty=0.2)
    if scalar:
        row = mkrow()
        value = {"scalar": row}
        pyval = df_of_row(row, s.ty, rng)
    else:
        rows = [mkrow() for _ in range(cnt)]
        value = {"array": rows}
        pyval = [df_of_row(r, s.ty, rng) for r in rows]
        if rng.random() < 0.5 and rows:
            # as another nested array of the same dtype
            try:
                pyval = NestedExtensionArray.from_sequence(pyval, dtype=s.ext.dtype)
            except Exception:  # ragged: keep the python list so that the assignment itself is offered the data
                pass
    ext = s.fresh_ext()
    before = weak_rows(export.rows_view(ext))

    def run():
        ext[py_key(key)] = pyval
        return colres(ext)
    real = call_real(run)
    extra = None
    spec_ok = None
    ans = ctx.driver.call("setItem", col=s.phys, key=key, value=value)
    spec = mcol(ans["spec"])
    if "err" in real:
        # a refused assignment must leave the array unchanged (C01: never stored)
        after = weak_rows(export.rows_view(ext))
        if after != before:
            spec_ok = False
            extra = {"after_failed_assignment": after}
    ctx.case(f"setitem.{key['k']}", {**s.desc(), "key": key, "value": value}, real, mcol(ans["model"]), spec, hyp=s.hyp,
             features=s.features + (f"key={key['k']}", f"ragged={ragged}", "scalar" if scalar else "array"),
             spec_ok=spec_ok, nontrivial=s.nontrivial(), extra=extra)


def case_concat(ctx, ty=None):
    rng = ctx.rng
    ty = ty or gen.rand_ty(rng)
    subs = [Subject(ctx, content=gen.rand_content(rng, ty=ty, nrows=rng.randint(0, 4))) for _ in range(rng.randint(1, 3))]
    real = call_real(lambda: colres(NestedExtensionArray._concat_same_type([x.fresh_ext() for x in subs])))
    ans = ctx.driver.call("concat", ty=ty, cols=[x.phys for x in subs])
    hyp = {k: any(x.hyp.get(k) for x in subs) if isinstance(subs[0].hyp.get(k), bool) else None for k in subs[0].hyp}
    ctx.case("concat", {"parts": [x.desc() for x in subs]}, real, mcol(ans["model"]), mcol(ans["spec"]), hyp=hyp,
             features=(f"parts={len(subs)}",), nontrivial=any(x.nontrivial() for x in subs))
    # series-level pd.concat moves labels with rows
    sers = [x.series() for x in subs]
    real = call_real(lambda: (lambda r: {"index": export.labels(r.index), **colres(r.array)})(pd.concat(sers)))
    if "ok" in real and "ok" in ans["spec"]:
        exp = {"index": sum([export.labels(x.index) for x in sers], []), **mcol(ans["spec"])["ok"]}
        ctx.case("pd.concat", {"parts": [x.desc() for x in subs]}, real, None, {"ok": exp}, hyp=hyp,
                 features=(f"parts={len(subs)}",), nontrivial=any(x.nontrivial() for x in subs))


def case_result_is_new_sequence(ctx, s: Subject, only=None):
    """Every operation that returns a column returns a NEW sequence (as `list` operations do): assigning an
    element of the result leaves the source as it was, and the other way round."""
    rng = ctx.rng
    n = len(s.content["rows"])
    if n == 0:
        return
    ty = s.ty
    empty = lambda e: e[np.zeros(len(e), dtype=bool)]   # noqa: E731
    producers = {
        "slice_all": lambda e: e[:],
        "take_all": lambda e: e.take(np.arange(len(e))),
        "mask_all": lambda e: e[np.ones(len(e), dtype=bool)],
        "ints_all": lambda e: e[np.arange(len(e))],
        "copy": lambda e: e.copy(),
        "concat_one": lambda e: NestedExtensionArray._concat_same_type([e]),
        "concat_tail_empty": lambda e: NestedExtensionArray._concat_same_type([e, empty(e)]),
        "concat_head_empty": lambda e: NestedExtensionArray._concat_same_type([empty(e), e]),
        "concat_slice_empty": lambda e: NestedExtensionArray._concat_same_type([e, e[0:0]]),
        "pd_concat_empty": lambda e: pd.concat([pd.Series(e), pd.Series(e).iloc[0:0]]).array,
        "dropna": lambda e: e.dropna(),
        "pickle": lambda e: pickle.loads(pickle.dumps(e)),
        # field selections through the accessor (also the one that keeps every field in stored order)
        "view_all_fields": lambda e: pd.Series(e).nest[[nm for nm, _ in ty]].array,
        "view_fields_reversed": lambda e: pd.Series(e).nest[[nm for nm, _ in ty][::-1]].array,
        "view_first_field": lambda e: pd.Series(e).nest[[ty[0][0]]].array,
        "view_fields_array_api": lambda e: e.view_fields([nm for nm, _ in ty]),
    }
    name = rng.choice([k for k in producers if (only is None or k.startswith(only))])
    src = s.fresh_ext()
    before = weak_rows(export.rows_view(src))
    r = call_real(lambda: producers[name](src))
    if "err" in r:
        return
    res = r["ok"]
    if len(res) == 0:
        return
    res_before = weak_rows(export.rows_view(res))
    row = gen.rand_row(rng, ty, p_missing=0.3, maxlen=4)
    res_ty = export.dtype_ty(res.dtype)
    row_res = None if row is None else [[nm, dict(map(tuple, row))[nm]] for nm, _ in res_ty]

    def mutate_result():
        res[rng.randrange(len(res))] = df_of_row(row_res, res_ty)
        return weak_rows(export.rows_view(src))
    real = call_real(mutate_result)
    ctx.case(f"new_sequence.{name}.source_after_result_edit", {**s.desc(), "row": row}, real, None, {"ok": before}, hyp=s.hyp,
             features=s.features + (name,), nontrivial=True)
    res2 = call_real(lambda: producers[name](src))
    if "ok" in res2 and len(res2["ok"]):
        res2 = res2["ok"]
        r2_before = weak_rows(export.rows_view(res2))

        def mutate_source():
            src[rng.randrange(n)] = df_of_row(row, ty)
            return weak_rows(export.rows_view(res2))
        real = call_real(mutate_source)
        ctx.case(f"new_sequence.{name}.result_after_source_edit", {**s.desc(), "row": row}, real, None, {"ok": r2_before},
                 hyp=s.hyp, features=s.features + (name,), nontrivial=True)


def case_simple(ctx, s: Subject):
    ext = s.fresh_ext()
    ans = ctx.driver.call("dropna", col=s.phys)
    real = call_real(lambda: colres(ext.dropna()))
    ctx.case("dropna", s.desc(), real, mcol(ans["model"]), mcol(ans["spec"]), hyp=s.hyp, features=s.features,
             nontrivial=s.nontrivial())
    ans = ctx.driver.call("pickle", col=s.phys)
    real = call_real(lambda: colres(pickle.loads(pickle.dumps(ext))))
    ctx.case("pickle", s.desc(), real, mcol(ans["model"]), mcol(ans["spec"]), hyp=s.hyp, features=s.features,
             nontrivial=s.nontrivial())
    real = call_real(lambda: colres(ext.copy()))
    ctx.case("copy", s.desc(), real, mcol(ans["spec"]), mcol(ans["spec"]), hyp=s.hyp, features=s.features,
             nontrivial=s.nontrivial())
    # equals is reflexive across layouts of the same content (no NaN: Arrow's equality is not reflexive on NaN)
    has_nan = "nan" in str(s.content["rows"])
    if not has_nan:
        other = Subject(ctx, content=s.content, allow_hidden=False)
        real = call_real(lambda: bool(ext.equals(other.fresh_ext())))
        same_nullness = True
        ctx.case("equals", {"a": s.desc(), "b": other.desc()}, real, None, {"ok": True}, hyp=s.hyp, features=s.features,
                 nontrivial=s.nontrivial())


# ---- field edits (C06) -----------------------------------------------------------------------

def rand_field(rng, ty, new_ok=True):
    names = [n for n, _ in ty]
    if new_ok and rng.random() < 0.5:
        return rng.choice(["z", "new", "w"])
    return rng.choice(names)


def lens_of(content):
    return [0 if r is None else (len(r[0][1]) if r else 0) for r in content["rows"]]


def case_field_edits(ctx, s: Subject, malformed=False):
    rng = ctx.rng
    ser = s.series()
    sj = s.series_json()
    ty = s.ty
    lens = lens_of(s.content)
    total = sum(lens)
    n = len(lens)

    def sres(r):
        return {"index": export.labels(r.index), "name": r.name, **colres(r.array)}

    def mser(j, index):
        if j is None or "err" in j:
            return j
        c = j["ok"]
        return {"ok": {"index": index, "name": "nest", "ty": c["ty"], "rows": weak_rows(c["rows"])}}
    idx = export.labels(ser.index)
    feats = s.features
    # with_flat_field
    f = rand_field(rng, ty)
    t = rng.choice(gen.TYNAMES)
    k = total if not (malformed and rng.random() < 0.5) else total + rng.choice([-1, 1, 2])
    k = max(k, 0)
    scalar = rng.random() < 0.25 and not t.startswith("timestamp")
    if scalar:
        cell = gen.rand_cell(rng, t, p_null=0)
        value = {"scalar": cell}
        pyv = dec_cell(cell, t)
        if t.startswith("timestamp"):
            pyv = pd.Timestamp(pyv)
    else:
        cells = [gen.rand_cell(rng, t) for _ in range(k)]
        value = {"array": cells}
        pyv = gen.flat_array(cells, t)
        form = rng.choice(["pa", "series", "np"])
        if form == "series":
            pyv = pd.Series(pyv, dtype=pd.ArrowDtype(TYPES[t]))
    ans = ctx.driver.call("setFlatField", col=s.phys, field=f, ty=t, value=value, keep=False)
    real = call_real(lambda: sres(ser.nest.with_flat_field(f, pyv)))
    ctx.case("nest.with_flat_field", {**s.desc(), "field": f, "ty": t, "value": value}, real, mser(ans["model"], idx),
             mser(ans["spec"], idx), hyp=s.hyp, features=feats + ("scalar" if scalar else "flat",), nontrivial=s.nontrivial())
    # with_list_field
    f = rand_field(rng, ty)
    t = rng.choice(gen.TYNAMES)
    lists = []
    for i, l in enumerate(lens):
        ll = l
        if malformed and rng.random() < 0.3:
            ll = max(0, l + rng.choice([-1, 1]))
        if s.content["rows"][i] is None and rng.random() < 0.5:
            lists.append(None)
        else:
            lists.append([gen.rand_cell(rng, t) for _ in range(ll)])
    la = gen.mk_list_array(lists, t)
    if rng.random() < 0.3 and n > 0:
        # a sliced list array as the value
        pad = [[gen.rand_cell(rng, t)]]
        la = gen.mk_list_array(pad + lists, t).slice(1)
    vj = export.export_list(la, t)
    ans = ctx.driver.call("setListField", col=s.phys, field=f, ty=t, value=vj, keep=False)
    real = call_real(lambda: sres(ser.nest.with_list_field(f, la)))
    ctx.case("nest.with_list_field", {**s.desc(), "field": f, "ty": t, "value": vj}, real, mser(ans["model"], idx),
             mser(ans["spec"], idx), hyp=s.hyp, features=feats + ("list",), nontrivial=s.nontrivial())
    # with_filled_field
    f = rand_field(rng, ty)
    t = rng.choice(gen.TYNAMES)
    m = n if not (malformed and rng.random() < 0.5) else n + 1
    cells = [gen.rand_cell(rng, t) for _ in range(m)]
    pyv = gen.flat_array(cells, t)
    ans = ctx.driver.call("fillFieldLists", col=s.phys, field=f, ty=t, value=cells, keep=False)
    real = call_real(lambda: sres(ser.nest.with_filled_field(f, pyv)))
    ctx.case("nest.with_filled_field", {**s.desc(), "field": f, "ty": t, "value": cells}, real, mser(ans["model"], idx),
             mser(ans["spec"], idx), hyp=s.hyp, features=feats + ("fill",), nontrivial=s.nontrivial())
    # without_field / field subset
    names = [nm for nm, _ in ty]
    fs = rng.sample(names, rng.randint(1, len(names)))
    if malformed and rng.random() < 0.3:
        fs = fs + ["nope"]
    as_str = len(fs) == 1 and rng.random() < 0.5
    containing = [x for x in names if any(y != x and y in x for y in names)]
    if containing and rng.random() < 0.7:
        # the one name given as a plain string contains the name of a field that has to stay
        fs, as_str = [rng.choice(containing)], True
    ans = ctx.driver.call("popFields", col=s.phys, fields=fs)
    real = call_real(lambda: sres(ser.nest.without_field(fs[0] if as_str else fs)))
    ctx.case("nest.without_field", {**s.desc(), "fields": fs}, real, mser(ans["model"], idx), mser(ans["spec"], idx),
             hyp=s.hyp, features=feats, nontrivial=s.nontrivial())
    fs = rng.sample(names, rng.randint(1, len(names)))
    if malformed and rng.random() < 0.3:
        fs = fs + [rng.choice(fs + ["nope"])]
    ans = ctx.driver.call("viewFields", col=s.phys, fields=fs)
    real = call_real(lambda: sres(ser.nest[fs]))
    ctx.case("nest.getitem_fields", {**s.desc(), "fields": fs}, real, mser(ans["model"], idx), mser(ans["spec"], idx),
             hyp=s.hyp, features=feats, nontrivial=s.nontrivial())
    # .nest[f] = value (in place, keeps the field's dtype)
    f = rng.choice(names)
    t = dict(map(tuple, ty))[f]
    scalar = rng.random() < 0.3 and not t.startswith("timestamp")
    if scalar:
        cell = gen.rand_cell(rng, t, p_null=0)
        value = {"scalar": cell}
        pyv = dec_cell(cell, t)
        if t.startswith("timestamp"):
            pyv = pd.Timestamp(pyv)
    else:
        cells = [gen.rand_cell(rng, t) for _ in range(total)]
        value = {"array": cells}
        pyv = gen.flat_array(cells, t)
    ser2 = s.series()
    ans = ctx.driver.call("accSetItem", series=sj, field=f, ty=t, value=value)

    def setit():
        ser2.nest[f] = pyv
        return sres(ser2)

    def mser2(j):
        if j is None or "err" in j:
            return j
        c = j["ok"]["col"]
        return {"ok": {"index": j["ok"]["index"], "name": "nest", "ty": c["ty"], "rows": weak_rows(c["rows"])}}
    real = call_real(setit)
    ctx.case("nest.setitem", {**s.desc(), "field": f, "ty": t, "value": value}, real, mser2(ans["model"]), mser2(ans["spec"]),
             hyp=s.hyp, features=feats + ("inplace",), nontrivial=s.nontrivial())
    # the in-place setter keeps the field's element type: values of ANOTHER numeric kind are stored only when that type
    # holds them exactly (fractions offered to an integer field, integers beyond 2**53 offered to a double field are
    # refused — never rounded or truncated silently)
    numf = [(nm, tt) for nm, tt in ty if tt in ("int64", "double")]
    if numf and total > 0 and not s.hyp.get("hidden"):
        f2, t2 = rng.choice(numf)
        if t2 == "int64":
            offered = [rng.choice([0.5, 2.75, -1.25, 3.0, 1e3 + 0.1]) for _ in range(total)]
            pyv2 = rng.choice([lambda: np.array(offered, dtype=np.float64), lambda: pa.array(offered, type=pa.float64()),
                               lambda: offered[0]])
        else:
            offered = [rng.choice([2**53 + 1, 2**60 + 3, -(2**53) - 1, 7]) for _ in range(total)]
            pyv2 = rng.choice([lambda: np.array(offered, dtype=np.int64), lambda: pa.array(offered, type=pa.int64()),
                               lambda: offered[0]])
        ser3 = s.series()

        def set_other_kind():
            v = pyv2()
            ser3.nest[f2] = v
            stored = pa.array(ser3.nest[f2]).to_pylist()
            want = [v] * total if np.ndim(v) == 0 else list(offered)
            from fractions import Fraction
            return {"exact": all((a is not None) and Fraction(a) == Fraction(b) for a, b in zip(stored, want)),
                    "type_kept": str(pa.array(ser3.nest[f2]).type) == t2}
        real = call_real(set_other_kind)
        ok = "err" in real or (real["ok"]["exact"] and real["ok"]["type_kept"])
        ctx.case("nest.setitem.other_numeric_kind", {**s.desc(), "field": f2, "ty": t2, "offered": offered}, real, None, None,
                 hyp=s.hyp, features=feats + ("inplace", "other_kind", t2), spec_ok=ok, nontrivial=True)


# ---- histories on one object (stale state, C02/C03/C05) ----------------------------------------

def check_object_views(ctx, ser, expected_rows, ty, tag, hist):
    """all observers of one live Series object against the specification of its current storage"""
    ext = ser.array
    phys = export.export_ext(ext)
    a = ctx.driver.call("abs", col=phys)["model"]
    ok = weak_rows(a["col"]["rows"]) == weak_rows(expected_rows)
    ctx.case(f"history.storage[{tag}]", {"history": hist}, {"ok": weak_rows(a["col"]["rows"])}, None,
             {"ok": weak_rows(expected_rows)}, hyp=a["hyp"], features=("history",))
    ans = ctx.driver.call("observers", col=phys)
    spec = ans["spec"]
    spec["rows"] = weak_rows(spec["rows"])
    obs = {
        "len": lambda: len(ext),
        "isna": lambda: [bool(x) for x in ser.isna()],
        "rows": lambda: weak_rows(export.rows_view(ext)),
        "listLengths": lambda: [int(x) for x in ser.nest.list_lengths],
        "flatLength": lambda: int(ser.nest.flat_length),
        "listOffsetsDiff": lambda: [int(x) for x in np.diff(np.asarray(ext.list_offsets))],
        "fieldNames": lambda: list(ser.nest.fields),
        "getListIndex": lambda: [int(x) for x in ext.get_list_index()],
    }
    for name, f in obs.items():
        real = call_real(f)
        sp = spec[name]
        if not (isinstance(sp, dict) and ("ok" in sp or "err" in sp)):
            sp = {"ok": sp}
        ctx.case(f"history.observe.{name}[{tag}]", {"history": hist}, real, None, sp, hyp=a["hyp"], features=("history",))
    sj = {"index": export.labels(ser.index), "col": phys}
    ans = ctx.driver.call("toFlat", series=sj, fields=None)
    real = call_real(lambda: export.flat_df_view(ser.nest.to_flat()))
    ctx.case(f"history.to_flat[{tag}]", {"history": hist}, real, None, ans["spec"], hyp=a["hyp"], features=("history",))
    real = call_real(lambda: export.labels(ser.nest.get_flat_index()))
    ans = ctx.driver.call("getFlatIndex", series=sj)
    ctx.case(f"history.get_flat_index[{tag}]", {"history": hist}, real, None, ans["spec"], hyp=a["hyp"], features=("history",))
    # dropna / isna consistency at the Series level
    real = call_real(lambda: (lambda r: {"index": export.labels(r.index), "rows": weak_rows(export.rows_view(r.array))})(ser.dropna()))
    exp_keep = [i for i, r in enumerate(expected_rows) if r is not None]
    lab = export.labels(ser.index)
    ctx.case(f"history.series_dropna[{tag}]", {"history": hist}, real, None,
             {"ok": {"index": [lab[i] for i in exp_keep], "rows": weak_rows([expected_rows[i] for i in exp_keep])}},
             hyp=a["hyp"], features=("history",))


def history_same_object(ctx, count):
    """random histories of in-place operations on ONE Series object, all views checked after every step"""
    rng = ctx.rng
    for it in range(count):
        # every other history starts from a layout whose fields are windows at non-zero offsets
        s = Subject(ctx, allow_hidden=False, nrows=rng.randint(2, 5),
                    layout=(rng.choice(["slice", "chunks_sliced", "concat_slices", "lib_slice_view"]) if it % 2 else None))
        ser = s.series()
        ty = s.ty
        rows = [r for r in s.content["rows"]]
        hist = [{"start": s.desc()}]
        check_object_views(ctx, ser, rows, ty, "start", hist)
        for step in range(rng.randint(2, 4)):
            kind = rng.choice(["setitem", "setitem", "setitem_none", "nest_setitem", "nest_setitem", "relabel", "read",
                               "ragged_setitem", "ragged_list_field", "add_field", "pop_field"])
            n = len(rows)
            if kind == "pop_field" and len(ty) < 2:
                kind = "add_field"
            if kind in ("add_field", "pop_field"):
                # the SET of fields changes in place, through the array's own methods (the accessor and the dtype of
                # the Series were looked at before: check_object_views ran at the start)
                try:
                    if kind == "pop_field":
                        f = rng.choice([x for x, _ in ty])
                        hist.append({"op": "pop_field", "field": f})
                        ser.array.pop_fields([f])
                        ty = [p for p in ty if p[0] != f]
                        rows = [None if r is None else [p for p in r if p[0] != f] for r in rows]
                    else:
                        f = f"nf{step}"
                        t = rng.choice(["int64", "double", "string"])
                        lens = ops_lens(rows)
                        how = rng.choice(["flat", "list"])
                        lists = [[gen.rand_cell(rng, t) for _ in range(ln)] for ln in lens]
                        hist.append({"op": "add_field", "field": f, "ty": t, "how": how, "lists": lists})
                        if how == "flat":
                            ser.array.set_flat_field(f, gen.flat_array([c for l in lists for c in l], t))
                        else:
                            ser.array.set_list_field(f, gen.mk_list_array(lists, t))
                        ty = ty + [[f, t]]
                        rows = [None if r is None else r + [[f, l]] for r, l in zip(rows, lists)]
                except Exception as e:  # noqa: BLE001
                    ctx.case(f"history.{kind}", {"history": hist}, {"err": type(e).__name__, "msg": str(e)[:100]}, None,
                             {"ok": True}, features=("history",))
                check_object_views(ctx, ser, rows, ty, f"step{step}", list(hist))
                # "if this updates the dtype, it would not affect the dtype of the pd.Series" (documented): the
                # history goes on with a Series made of the same array object
                ser = pd.Series(ser.array, index=ser.index, copy=False)
                continue
            if kind in ("ragged_setitem", "ragged_list_field") and len(ty) >= 2:
                # an in-place call that must be REFUSED and leave the object as it was
                hist.append({"op": kind})
                try:
                    if kind == "ragged_setitem":
                        ser.array[rng.randrange(n)] = df_of_row(ragged_row(rng, ty), ty)
                    else:
                        f, t = rng.choice(ty)
                        lens = ops_lens(rows)
                        j = rng.randrange(n)
                        lists = [[gen.rand_cell(rng, t) for _ in range(ln + (1 if i == j else 0))] for i, ln in enumerate(lens)]
                        ser.array.set_list_field(f, gen.mk_list_array(lists, t))
                    ctx.case(f"history.{kind}.accepted", {"history": hist}, {"ok": True}, None, {"err": "ValueError"},
                             features=("history",))
                except Exception:  # noqa: BLE001 — refused, as it must be
                    pass
                check_object_views(ctx, ser, rows, ty, f"step{step}", list(hist))
                continue
            if kind in ("setitem", "setitem_none"):
                i = rng.randrange(n)
                row = None if kind == "setitem_none" else gen.rand_row(rng, ty, p_missing=0.0, p_empty=0.2, maxlen=4)
                how = rng.choice(["array", "iloc", "mask"])
                hist.append({"op": "setitem", "pos": i, "row": row, "how": how})
                val = df_of_row(row, ty)
                try:
                    if how == "array":
                        ser.array[i] = val
                    elif how == "iloc":
                        ser.iloc[[i]] = NestedExtensionArray.from_sequence([val], dtype=ser.dtype)
                    else:
                        m = np.zeros(n, dtype=bool)
                        m[i] = True
                        ser.array[m] = val
                    rows[i] = row
                except Exception as e:  # noqa: BLE001
                    import traceback
                    ctx.case("history.setitem", {"history": hist}, {"err": type(e).__name__, "msg": str(e)[:100],
                                                                     "where": traceback.format_exc()[-3000:]}, None,
                             {"ok": True}, features=("history",))
            elif kind == "nest_setitem":
                f, t = rng.choice(ty)
                total = sum(ops_lens(rows))
                cells = [gen.rand_cell(rng, t) for _ in range(total)]
                hist.append({"op": "nest_setitem", "field": f, "cells": cells})
                try:
                    ser.nest[f] = gen.flat_array(cells, t)
                    k = 0
                    for r in rows:
                        if r is not None:
                            ln = len(r[0][1])
                            for p in r:
                                if p[0] == f:
                                    p[1] = cells[k:k + ln]
                            k += ln
                except Exception as e:  # noqa: BLE001
                    ctx.case("history.nest_setitem", {"history": hist}, {"err": type(e).__name__, "msg": str(e)[:100]},
                             None, {"ok": True}, features=("history",))
            elif kind == "relabel":
                labs = gen.rand_labels(rng, n)
                hist.append({"op": "relabel", "labels": labs})
                ser.index = pd.Index(labs)
            else:
                hist.append({"op": "read"})
            check_object_views(ctx, ser, rows, ty, f"step{step}", list(hist))


def ops_lens(rows):
    return [0 if r is None else (len(r[0][1]) if r else 0) for r in rows]


def exhaustive_slices(ctx):
    """every slice with start/stop in [-(n+1), n+1] ∪ {None} and step in ±{1,2,3} ∪ {None}, n ≤ 4,
    against Python's own list slicing and the Lean model"""
    rng = ctx.rng
    for n in range(0, 5):
        s = Subject(ctx, content=gen.rand_content(rng, nrows=n, ty=[["a", "int64"]], p_missing=0.25), layout="chunks_sliced")
        rows = weak_rows(s.content["rows"])
        bounds = [None] + list(range(-(n + 1), n + 2))
        for a in bounds:
            for b in bounds:
                for st in (None, 1, 2, 3, -1, -2, -3):
                    key = {"k": "slice", "a": a, "b": b, "s": st}
                    ext = s.fresh_ext()
                    real = call_real(lambda: weak_rows(export.rows_view(ext[slice(a, b, st)])))
                    ans = ctx.driver.call("getItem", col=s.phys, key=key)
                    m = ans["model"]
                    model = {"ok": weak_rows(m["ok"]["col"]["rows"])} if "ok" in m else m
                    ctx.case("getitem.slice.exhaustive", {**s.desc(), "key": key}, real, model,
                             {"ok": rows[slice(a, b, st)]}, hyp=s.hyp, features=(f"n={n}",), nontrivial=n > 0)


# ---- views of derived objects (C03: "however they were produced") -------------------------------

def derived_views(ctx, count):
    import io
    rng = ctx.rng
    for _ in range(count):
        s = Subject(ctx, allow_hidden=False)
        ser = s.series()
        n = len(ser)
        how = rng.choice(["slice", "mask", "take", "concat", "setitem", "pickle", "dropna", "with_flat", "without",
                          "empty_ints", "parquet", "copy", "iloc_neg", "from_lists_ragged", "nest_lists_ragged", "mask_setna",
                          "where_na"])
        try:
            if how in ("from_lists_ragged", "nest_lists_ragged"):
                # list columns with a length mismatch in one row: refused — or, if ever accepted, a column whose
                # views agree with one another
                if len(s.ty) < 2 or n == 0 or any(r is None for r in s.content["rows"]):
                    continue
                cols = {}
                j = rng.randrange(n)
                for k, (nm, t) in enumerate(s.ty):
                    lists = [list(dict(map(tuple, r))[nm]) for r in s.content["rows"]]
                    if k == 1:
                        lists[j] = lists[j] + [gen.rand_cell(rng, t)]
                    la = gen.mk_list_array(lists, t)
                    cols[nm] = pd.Series(la, dtype=pd.ArrowDtype(la.type), index=ser.index)
                df = NestedFrame(cols)
                try:
                    d = (NestedFrame.from_lists(df, list_columns=list(cols), name="nest")["nest"] if how == "from_lists_ragged"
                         else df.nest_lists("nest", list(cols))["nest"])
                except Exception:  # noqa: BLE001 — refused, as it must be
                    continue
            elif how in ("mask_setna", "where_na"):
                # a row made missing through pandas' masking: every view must agree that it holds nothing
                m = np.array([rng.random() < 0.4 for _ in range(n)], dtype=bool)
                if how == "mask_setna":
                    d = ser.copy()
                    if n:
                        d[m] = pd.NA
                else:
                    d = ser.mask(pd.Series(m, index=ser.index)) if ser.index.is_unique else ser.copy()
            elif how == "slice":
                a = rng.randint(0, n)
                d = ser.iloc[a:rng.randint(a, n)]
            elif how == "mask":
                d = ser[np.array([rng.random() < 0.5 for _ in range(n)], dtype=bool)]
            elif how == "take":
                d = ser.take([rng.randrange(n) for _ in range(rng.randint(0, n + 1))]) if n else ser
            elif how == "concat":
                d = pd.concat([ser.iloc[n // 2:], ser, ser.iloc[:n // 2]])
            elif how == "setitem":
                d = ser.copy()
                if n:
                    d.array[rng.randrange(n)] = df_of_row(gen.rand_row(rng, s.ty, p_missing=0.3), s.ty)
            elif how == "pickle":
                d = pickle.loads(pickle.dumps(ser))
            elif how == "dropna":
                d = ser.dropna()
            elif how == "with_flat":
                t = rng.choice(gen.TYNAMES)
                d = ser.nest.with_flat_field("z", gen.flat_array([gen.rand_cell(rng, t) for _ in range(ser.nest.flat_length)], t))
            elif how == "without":
                if len(s.ty) < 2:
                    continue
                d = ser.nest.without_field(s.ty[0][0])
            elif how == "empty_ints":
                d = pd.Series(ser.array[np.array([], dtype=np.int64)], name="nest")
            elif how == "parquet":
                buf = io.BytesIO()
                NestedFrame({"nest": ser.reset_index(drop=True)}).to_parquet(buf)
                buf.seek(0)
                from nested_pandas import read_parquet
                d = read_parquet(buf)["nest"]
            elif how == "iloc_neg":
                d = ser.iloc[::-1]
            else:
                d = ser.copy()
        except Exception as e:  # noqa: BLE001
            ctx.case(f"derive.{how}", s.desc(), {"err": type(e).__name__, "msg": str(e)[:100]}, None, {"ok": True},
                     hyp=s.hyp, features=(how,))
            continue
        phys = export.export_ext(d.array)
        a = ctx.driver.call("abs", col=phys)["model"]
        check_object_views(ctx, d, a["col"]["rows"], [list(x) for x in a["col"]["ty"]], f"derived:{how}", [s.desc(), how])


def case_accessor_after_inplace(ctx, s: Subject):
    """C06 on a Series whose backing array was swapped by an in-place pandas call AFTER `.nest` had been used on it
    (pandas caches the accessor object on the Series): a field edit / selection through `.nest` describes the Series
    as it is NOW — the same as on a Series freshly made of its current rows and labels."""
    rng = ctx.rng
    n = len(s.content["rows"])
    if n < 2:
        return
    labels = gen.rand_labels(rng, n, pattern="unique_unsorted")
    ser = pd.Series(s.fresh_ext(), index=pd.Index(labels), name="nest")
    _ = list(ser.nest.fields), ser.nest.flat_length          # ordinary earlier use of the accessor
    step = rng.choice(["sort_index", "sort_index_desc", "drop", "dropna"])
    try:
        if step == "sort_index":
            ser.sort_index(inplace=True)
        elif step == "sort_index_desc":
            ser.sort_index(ascending=False, inplace=True)
        elif step == "drop":
            ser.drop([rng.choice(labels)], inplace=True)
        else:
            ser.dropna(inplace=True)
    except Exception:  # noqa: BLE001 — e.g. labels of mixed kinds cannot be sorted: nothing to check
        return
    fresh = pd.Series(NestedExtensionArray(pa.chunked_array(ser.array.chunked_array.chunks, type=ser.array.chunked_array.type)),
                      index=ser.index.copy(), name="nest")
    total = int(fresh.nest.flat_length)
    ty = s.ty
    f0 = ty[0][0]
    t = rng.choice(["int64", "double", "string"])
    cells = [gen.rand_cell(rng, t) for _ in range(total)]
    cell = gen.rand_cell(rng, "int64", p_null=0)

    def sres(r):
        return {"index": export.labels(r.index), "name": r.name, **colres(r.array)}
    edits = {
        "with_flat_field": lambda x: x.nest.with_flat_field("zz_new", gen.flat_array(cells, t)),
        "with_flat_field_existing": lambda x: x.nest.with_flat_field(f0, gen.flat_array(cells, t)),
        "with_filled_field": lambda x: x.nest.with_filled_field("zz_fill", np.arange(len(x), dtype=np.int64) + cell),
        "select": lambda x: x.nest[[f0]],
        "to_flat": lambda x: x.nest.to_flat(),
    }
    if len(ty) >= 2:
        edits["without_field"] = lambda x: x.nest.without_field(f0)
    for name, fn in edits.items():
        view = (lambda r: export.flat_df_view(r)) if name == "to_flat" else sres
        real = call_real(lambda: view(fn(ser)))
        spec = call_real(lambda: view(fn(fresh)))
        ctx.case(f"nest.after_inplace.{name}", {**s.desc(), "labels": labels, "inplace": step, "ty": t, "cells": cells, "cell": cell},
                 real, None, spec, hyp=s.hyp, features=s.features + ("after_inplace", step, name), nontrivial=s.nontrivial())
