"""The Lean driver as a child process speaking the JSON line protocol."""
import json
import os
import subprocess

from .common import VERIF

LEAN_DIR = os.path.join(VERIF, "lean", "NPModel")
DRIVER = os.path.join(LEAN_DIR, ".lake", "build", "bin", "npdriver")


class Driver:
    def __init__(self):
        if os.path.exists(DRIVER):
            cmd = [DRIVER]
        else:  # fall back to the interpreter
            cmd = ["lake", "env", "lean", "--run", "Driver.lean"]
        self.p = subprocess.Popen(cmd, cwd=LEAN_DIR, stdin=subprocess.PIPE, stdout=subprocess.PIPE,
                                  text=True, bufsize=1)
        self.n = 0

    def call(self, op, **args):
        self.n += 1
        req = dict(args)
        req["id"] = self.n
        req["op"] = op
        self.p.stdin.write(json.dumps(req) + "\n")
        self.p.stdin.flush()
        line = self.p.stdout.readline()
        if not line:
            raise RuntimeError("Lean driver died")
        ans = json.loads(line)
        if "bad" in ans:
            raise RuntimeError(f"driver rejected request {op}: {ans['bad']}")
        return ans

    def close(self):
        try:
            self.p.stdin.close()
            self.p.wait(timeout=10)
        except Exception:
            self.p.kill()
