"""KNOWN_FINDINGS.txt: committed list of genuine defects that are recorded rather than repaired.
Never written at run time.  An entry suppresses exactly the failures that match
(property, call regex, all trigger hypotheses true, failure mode)."""
import os
import re

from .common import VERIF

PATH = os.path.join(VERIF, "KNOWN_FINDINGS.txt")


def load():
    out = []
    if not os.path.exists(PATH):
        return out
    for line in open(PATH):
        line = line.strip()
        if not line.startswith("known:"):
            continue
        body = line[len("known:"):].strip()
        kv, _, text = body.partition(" :: ")
        d = dict(p.split("=", 1) for p in kv.split())
        out.append({
            "id": d["id"], "property": d["property"], "call": re.compile(d["call"]),
            "trigger": [t for t in d.get("trigger", "").split(",") if t],
            "mode": d.get("mode", "spec"), "text": text.strip(), "witness": d.get("witness"),
        })
    return out


def match(known, prop, op, hyp, mode):
    for k in known:
        if k["property"] != prop or k["mode"] != mode:
            continue
        if not k["call"].fullmatch(op):
            continue
        if all(hyp.get(t) for t in k["trigger"]):
            return k
    return None
