"""C16: results depend only on data and arguments, not on what ran before."""
import io
import itertools

from . import gen, export
from .common import pa, pd, np, weak_rows, NestedFrame, NestedDtype
from .runner import call_real
from .ops_nf import frame_view


def build(seed, variant="fresh"):
    """a small frame with identifier and non-identifier names; deterministic.
    variant "sliced": the same labels as rows 1.. of a longer frame (single chunk, non-zero offsets) whose middle row
    has no record (a missing nested row inside the slice)"""
    if variant == "sliced":
        flat = pd.DataFrame({"a": pd.array([9.0, 8.0, 1.0, 2.0, 4.0, 5.0], dtype=pd.ArrowDtype(pa.float64())),
                             "b c": pd.array([7, 6, 5, 4, 2, 1], dtype=pd.ArrowDtype(pa.int64()))},
                            index=pd.Index([5, 5, 10, 10, 30, 30]))
        other = pd.DataFrame({"z": pd.array([0.5, 1.5, 2.5, 3.5], dtype=pd.ArrowDtype(pa.float64()))}, index=pd.Index([5, 10, 20, 30]))
        nf = NestedFrame({"x": np.array([0.0, 1.0, 2.0, 3.0]), "y": np.array([4, 3, 2, 1])}, index=pd.Index([5, 10, 20, 30]))
        nf = nf.add_nested(flat, "n").add_nested(other, "my nest").iloc[1:]
    elif variant == "dup_labels":
        # a frame whose first two rows share their label (each holds the records of that label)
        flat = pd.DataFrame({"a": pd.array([1.0, 2.0, 4.0, 5.0], dtype=pd.ArrowDtype(pa.float64())),
                             "b c": pd.array([5, 4, 2, 1], dtype=pd.ArrowDtype(pa.int64()))},
                            index=pd.Index([10, 10, 30, 30]))
        other = pd.DataFrame({"z": pd.array([1.5, 3.5], dtype=pd.ArrowDtype(pa.float64()))}, index=pd.Index([10, 30]))
        nf = NestedFrame({"x": np.array([1.0, 2.0, 3.0]), "y": np.array([3, 2, 1])}, index=pd.Index([10, 10, 30]))
        nf = nf.add_nested(flat, "n").add_nested(other, "my nest")
    else:
        flat = pd.DataFrame({"a": pd.array([1.0, 2.0, None, 4.0, 5.0], dtype=pd.ArrowDtype(pa.float64())),
                             "b c": pd.array([5, 4, 3, 2, 1], dtype=pd.ArrowDtype(pa.int64()))},
                            index=pd.Index([10, 10, 20, 30, 30]))
        other = pd.DataFrame({"z": pd.array([1.5, 2.5, 3.5], dtype=pd.ArrowDtype(pa.float64()))}, index=pd.Index([10, 20, 30]))
        nf = NestedFrame({"x": np.array([1.0, 2.0, 3.0]), "y": np.array([3, 2, 1])}, index=pd.Index([10, 20, 30]))
        nf = nf.add_nested(flat, "n").add_nested(other, "my nest")
    # a plain (not nested) struct-of-lists column, as `read_parquet(reject_nesting=...)` leaves it
    st = pa.StructArray.from_arrays([pa.array([[1, 2], [3], [4, 5]]), pa.array([[1., 2.], [3.], [4., 5.]])], names=["p", "q"])
    nf["st"] = pd.Series(st, dtype=pd.ArrowDtype(st.type), index=nf.index)
    # base columns holding truth values WITH missing entries (nullable boolean, object)
    nf["ok"] = pd.array([True, None, False], dtype="boolean")
    nf["okobj"] = pd.Series([True, None, False], dtype=object, index=nf.index)
    # an object column of mixed kinds: nothing Arrow can pack
    nf["mixed"] = pd.Series(["s", 1, 2.5], dtype=object, index=nf.index)
    return nf


def _tbl(a, bc):
    return pd.DataFrame({"a": pd.array(a, dtype=pd.ArrowDtype(pa.float64())), "b c": pd.array(bc, dtype=pd.ArrowDtype(pa.int64()))})


def _swap_sizes(f):
    arr = f["n"].array
    arr[0] = _tbl([7.0, 8.0, 9.0], [7, 8, 9])     # 2 records -> 3
    arr[2] = _tbl([6.0], [6])                      # 2 records -> 1 (the total is unchanged)


# successful IN-PLACE operations: they change the data; the reference frame gets them too (and nothing else)
MUT_OPS = {
    "assign_row_bigger": lambda f: f["n"].array.__setitem__(0, _tbl([7.0, 8.0, 9.0], [7, 8, 9])),
    "assign_row_smaller_at": lambda f: f.at.__setitem__((30, "n"), _tbl([6.0], [6])),
    "assign_row_none": lambda f: f["n"].array.__setitem__(1, None),
    "swap_sizes": _swap_sizes,
    "field_assign": lambda f: f.__setitem__("n.a", [5.0, 4.0, 3.0, 2.0, 1.0][:int(f["n"].nest.flat_length)]
                                            + [0.5] * max(0, int(f["n"].nest.flat_length) - 5)),
    "inplace_eval_base_to_field": lambda f: f.eval("n.fromx = x", inplace=True),
    "inplace_eval_field": lambda f: f.eval("n.twice = n.a * 2", inplace=True),
    "inplace_query": lambda f: f.query("n.`b c` > 1", inplace=True),
    "inplace_sort": lambda f: f.sort_values("n.`b c`", inplace=True),
    "replace_nest_by_base": lambda f: f.__setitem__("my nest", np.array([1, 2, 3])),
    "cast_struct_to_nested": lambda f: f.__setitem__("st", f["st"].astype(NestedDtype(f["st"].dtype.pyarrow_dtype))
                                                     if not isinstance(f["st"].dtype, NestedDtype) else f["st"]),
}


def boom(*a, **k):
    raise RuntimeError("user function failed")


PREFIX_OPS = {
    # failing
    "query_undefined": lambda f: f.query("n.a > undefined_name_q"),
    "query_unknown_field": lambda f: f.query("n.nofield > 1"),
    "query_mixed": lambda f: f.query("n.a > 1 and x > 1"),
    "query_syntax": lambda f: f.query("n.a > > 1"),
    "query_quoted_undefined": lambda f: f.query("n.`b c` > undefined_name_q"),
    "eval_undefined": lambda f: f.eval("n.`b c` + undefined_name_q"),
    "eval_unknown_field": lambda f: f.eval("`my nest`.`no such` * 2"),
    "eval_assign_undefined": lambda f: f.eval("n.c = n.`b c` + undefined_name_q"),
    "query_inplace_fail": lambda f: f.query("n.`b c` > undefined_name_q", inplace=True),
    "eval_inplace_fail": lambda f: f.eval("n.c = n.`b c` + undefined_name_q", inplace=True),
    "setitem_wrong_length": lambda f: f.__setitem__("n.a", [1.0, 2.0]),
    "setitem_quoted_wrong_length": lambda f: f.__setitem__("n.`b c`", [1, 2]),
    "ragged_element": lambda f: f["n"].array.__setitem__(0, {"a": [1.0, 2.0, 3.0], "b c": [1]}),
    "sort_unknown": lambda f: f.sort_values("n.nofield"),
    "sort_bad_ascending": lambda f: f.sort_values(["n.a", "n.`b c`"], ascending=[True]),
    "sort_bad_na_position": lambda f: f.sort_values("n.a", na_position="middle"),
    "sort_raising_key": lambda f: f.sort_values("n.a", key=boom),
    "sort_bad_kind": lambda f: f.sort_values("n.a", kind="no-such-sort"),
    "dropna_bad_how": lambda f: f.dropna(subset="n.a", how="sometimes"),
    "query_bare_bool": lambda f: f.query("ok"),
    "query_bare_obj": lambda f: f.query("okobj"),
    "query_not_bool": lambda f: f.query("~ok"),
    "eval_bare_bool": lambda f: f.eval("ok"),
    "sort_mixed": lambda f: f.sort_values(["n.a", "x"]),
    "dropna_mixed": lambda f: f.dropna(subset=["n.a", "my nest.z"]),
    "dropna_inplace_fail": lambda f: f.dropna(subset=["n.a", "x"], inplace=True),
    # in-place dropna on a nested layer that fails AFTER its target was resolved
    "dropna_inplace_unknown_field": lambda f: f.dropna(subset="n.nofield", inplace=True),
    "dropna_inplace_how_and_thresh": lambda f: f.dropna(subset="n.a", how="any", thresh=1, inplace=True),
    # plain reads of the flat views (they must not write anything)
    "read_to_flat": lambda f: f["n"].nest.to_flat(),
    "read_flat_index": lambda f: f["n"].nest.get_flat_index(),
    "read_list_offsets": lambda f: f["n"].array.list_offsets,
    "reduce_raises": lambda f: f.reduce(boom, "n.a"),
    "reduce_no_columns": lambda f: f.reduce(lambda: 0),
    "add_nested_bad_on": lambda f: f.add_nested(pd.DataFrame({"q": [1]}), "w", on="missing_col"),
    "getitem_unknown": lambda f: f["n.nofield"],
    # a new nest from one of the frame's OWN columns that cannot be packed (the column object sits in pandas' item cache)
    "setitem_new_nest_unpackable": lambda f: f.__setitem__("meta.k", f["mixed"]),
    "setitem_new_nest_unpackable_cached": lambda f: (f["mixed"], f["x"], f.__setitem__("meta.k", f["mixed"]))[2],
    # removal of several fields from the live array where one name is wrong / nothing would be left: refused as a whole
    "pop_fields_partial": lambda f: f["n"].array.pop_fields(["a", "nofield"]),
    "pop_fields_all": lambda f: f["n"].array.pop_fields(list(f["n"].array.field_names)),
    # successful, read-only
    "query_ok": lambda f: f.query("n.a > 1"),
    "query_quoted_ok": lambda f: f.query("n.`b c` > 2"),
    "eval_quoted_ok": lambda f: f.eval("n.`b c` * 2"),
    "eval_assign_ok_copy": lambda f: f.eval("n.c = n.`b c` * 2"),
    "sort_ok": lambda f: f.sort_values("n.`b c`"),
    "dropna_ok": lambda f: f.dropna(subset="n.a"),
    "reduce_ok": lambda f: f.reduce(lambda a: {"s": float(np.nansum(np.asarray(a, dtype=float)))}, "n.a"),
    "to_parquet": lambda f: f.drop(columns=["mixed"]).to_parquet(io.BytesIO()),
    "getitem_quoted": lambda f: f["n.`b c`"],
    "copy": lambda f: f.copy(),
}


def flat_vals(s):
    return [None if v is None else float(v) for v in pa.array(s).to_pylist()]


PROBES = {
    "getitem_quoted": lambda f: flat_vals(f["n.`b c`"]),
    "getitem_plain": lambda f: flat_vals(f["n.a"]),
    "getitem_quoted_nest": lambda f: flat_vals(f["`my nest`.z"]),
    "query": lambda f: frame_view(f.query("n.a > 1")),
    "query_quoted": lambda f: frame_view(f.query("n.`b c` > 2")),
    "query_quoted_nest": lambda f: frame_view(f.query("`my nest`.z > 2")),
    "eval": lambda f: flat_vals(f.eval("n.`b c` * 2 + n.a")),
    "eval_assign": lambda f: frame_view(f.eval("n.c = n.`b c` * 2")),
    "eval_assign_quoted_target": lambda f: frame_view(f.eval("n.`d e` = n.a * 2")),
    "reduce": lambda f: frame_view(f.reduce(lambda a, b: {"s": float(np.nansum(np.asarray(a, dtype=float))), "k": len(b)}, "n.a", "n.`b c`")),
    "sort_values": lambda f: frame_view(f.sort_values("n.`b c`")),
    "dropna": lambda f: frame_view(f.dropna(subset="n.a")),
    "dropna_quoted": lambda f: frame_view(f.dropna(subset="n.`b c`")),
    "ok_isna": lambda f: [bool(v) for v in f["ok"].isna()] + [bool(v) for v in f["okobj"].isna()],
    "nest_series_index": lambda f: [export.labels(f["n"].index), export.labels(f["my nest"].index)],
    # the NAMES of the index, as the frame, a nested column and a flat view carry them
    "index_names": lambda f: [repr(f.index.name), repr(f["n"].index.name), repr(f["n.a"].index.name), repr(f.columns.name)],
    "flat_index": lambda f: export.labels(f["n.a"].index),
    "list_lengths": lambda f: [int(v) for v in f["n"].array.list_lengths],
    "count_nested": lambda f: frame_view(__import__("nested_pandas").utils.count_nested(f, "n")),
    "nested_columns": lambda f: list(f.nested_columns),
    "isna": lambda f: [bool(v) for v in f["n"].isna()] + [int(f["n"].count())],
    # (looks at the column objects only: anything that copies the frame would clear pandas' item cache)
    "column_labels": lambda f: [str(f[c].name) for c in f.columns] + [str(c) for c in f["mixed"].to_frame().columns],
    "fields": lambda f: [list(f[c].nest.fields) for c in f.nested_columns] + [str(f[c].dtype) for c in f.nested_columns],
    "query_st": lambda f: frame_view(f.query("st.p > 1")),
    "getitem_st": lambda f: flat_vals(f["st.q"]),
    "assign_on_copy": lambda f: (lambda g: (g.__setitem__("n.`b c`", [9, 8, 7, 6, 5]), frame_view(g))[1])(f.copy()),
    "aliases_attr": lambda f: getattr(f, "_aliases", None) is None,
    "data": lambda f: frame_view(f),
    "all_columns": lambda f: {k: [str(x) for x in v] for k, v in f.all_columns.items()},
    "query_fails_same": lambda f: f.query("n.a > undefined_name_q"),
}


ALL_OPS = {**PREFIX_OPS, **MUT_OPS}


def full_snap(f):
    """everything a user can read off the frame (any column kinds)"""
    cols = []
    for c in f.columns:
        col = f[c]
        if isinstance(col.dtype, NestedDtype):
            cols.append([str(c), str(col.dtype), weak_rows(export.rows_view(col.array))])
        else:
            cols.append([str(c), str(col.dtype), [repr(v) for v in col.tolist()]])
    return {"index": export.labels(f.index), "cols": cols, "cls": type(f).__name__}


def run_history(ctx, names, variant=None):
    # every third history starts from the sliced variant of the frame
    k_hist = getattr(ctx, "_hist_count", 0)
    ctx._hist_count = k_hist + 1
    variant = variant or ("sliced" if k_hist % 3 == 2 else "dup_labels" if k_hist % 6 == 1 else "fresh")
    fresh = build(0, variant)
    nf = build(0, variant)
    outcomes = []
    for nm in names:
        if nm in MUT_OPS:
            # (the same reads on both frames; no copies)
            before = call_real(lambda: full_snap(nf))
            call_real(lambda: full_snap(fresh))
        r = call_real(lambda: ALL_OPS[nm](nf))
        outcomes.append("err" if "err" in r else "ok")
        if nm in MUT_OPS and "err" in r:
            # an in-place operation that raises has changed nothing
            # (looked at as it is, and through a copy — which does not go through pandas' per-column item cache)
            for how, look in (("as_is", lambda: full_snap(nf)), ("copy", lambda: full_snap(nf.copy()))):
                after = call_real(look)
                ctx.case(f"history.refused_inplace_no_effect.{nm}", {"prefix": list(names), "frame": variant, "raised": r.get("cls"),
                                                                      "looked_at": how},
                         after, None, before, features=("refused_inplace", nm, variant, how), nontrivial=True)
        if nm in MUT_OPS:
            # the reference sees the same data changes, and none of the reads / failures in between
            r2 = call_real(lambda: MUT_OPS[nm](fresh))
            if ("err" in r) != ("err" in r2):
                ctx.case(f"history.mutation.{nm}", {"prefix": list(names)}, {"ok": "err" in r}, None, {"ok": "err" in r2},
                         features=("mutation", nm), nontrivial=True)
    # the object itself first: `DataFrame.copy()` clears pandas' item cache of its SOURCE, which would hide state left there
    for who in ("same", "copy"):
        obj, ref = (nf, fresh) if who == "same" else (nf.copy(), fresh.copy())
        # probes that only LOOK at the object come first (some later probes copy the frame internally, and pandas'
        # copy() clears the item cache of its source — which would repair state left there before it is looked at)
        first = ["isna", "nest_series_index", "index_names", "flat_index", "column_labels", "fields", "aliases_attr", "ok_isna", "list_lengths", "nested_columns", "data", "all_columns"]
        order = first + [k for k in PROBES if k not in first]
        for pn in order:
            pf = PROBES[pn]
            real = call_real(lambda: pf(obj))
            exp = call_real(lambda: pf(ref))
            real_c = real if "ok" in real else {"err": real.get("err")}
            exp_c = exp if "ok" in exp else {"err": exp.get("err")}
            ctx.case(f"history.{pn}", {"prefix": list(names), "prefix_outcomes": outcomes, "on": who, "frame": variant}, real_c, None, exp_c,
                     features=(f"len={len(names)}", who, variant) + tuple(names[:1]),
                     spec_ok=(real_c == exp_c), nontrivial=True)


def run_all(ctx):
    rng = ctx.rng
    names = list(PREFIX_OPS)
    muts = list(MUT_OPS)
    for nm in names + muts:
        run_history(ctx, [nm])
    for nm in muts:
        # every in-place operation also on the frame whose first two rows share their label
        run_history(ctx, [nm], variant="dup_labels")
    # read (fills whatever is memoised) -> change the data in place -> probe
    readers = ["query_ok", "sort_ok", "dropna_ok", "reduce_ok", "getitem_quoted", "query_unknown_field", "sort_unknown",
               "setitem_wrong_length", "getitem_unknown", "eval_quoted_ok"]
    combos = [(r, m) for r in readers for m in muts]
    rng.shuffle(combos)
    for r, m in combos[:ctx.budget(40, len(combos))]:
        run_history(ctx, [r, m])
    for _ in range(ctx.budget(15, 300)):
        k = rng.randint(3, 5)
        run_history(ctx, [rng.choice(names + muts + muts) for _ in range(k)])
    pairs = list(itertools.product(names, repeat=2))
    rng.shuffle(pairs)
    for p in pairs[:ctx.budget(60, len(pairs))]:
        run_history(ctx, list(p))
    if ctx.tier == "thorough":
        for _ in range(600):
            run_history(ctx, [rng.choice(names) for _ in range(3)])
    else:
        for _ in range(15):
            run_history(ctx, [rng.choice(names) for _ in range(rng.randint(3, 5))])
