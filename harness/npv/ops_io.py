"""C08: parquet files round-trip the frame and stay readable by plain Arrow."""
import io
import itertools
import os
import tempfile

from . import gen, export
from .common import pa, pd, np, weak_rows, weak, TYPES, NestedFrame, NestedDtype, NestedExtensionArray
from .runner import call_real
from .subject import Subject
from .ops_nf import frame_view, base_cells


def build(ctx, n_nests=None):
    rng = ctx.rng
    n = rng.choice([0, 1, 2, 3, 5])
    subs = []
    k = n_nests or rng.choice([1, 2])
    idx_kind = rng.choice(["default", "default", "named", "labels", "int_labels"])
    if idx_kind == "int_labels":
        # unnamed integer labels that are not the row numbers: repeated / unsorted / sorted with gaps, and 0..n-1 with one
        # label replaced by its neighbour (sorted, starts at 0, ends at n-1, and still not the default index)
        if n >= 3 and rng.random() < 0.5:
            vals = list(range(n))
            i = rng.randint(1, n - 2)
            vals[i] = vals[i + rng.choice([-1, 1])]
        else:
            vals = gen.rand_labels(rng, n, kind="int", pattern=rng.choice(["dup_sorted", "unique_unsorted", "desc_dups", "unique_sorted"]))
        if vals == list(range(n)):
            idx_kind = "default"
        else:
            index = pd.Index(vals, dtype="int64")
    if idx_kind == "default":
        index = pd.RangeIndex(n)
    elif idx_kind == "named":
        index = pd.Index(gen.rand_labels(rng, n, kind="int", pattern="unique_unsorted"), name="obj_id", dtype="int64")
    elif idx_kind == "labels":
        index = pd.Index(gen.rand_labels(rng, n, kind="str", pattern="dup_unsorted"), dtype=object)
    # column labels: identifier-like, with blanks / punctuation (legal: anything without '.' or '`'), or one label a
    # string prefix of another
    bname = rng.choice(["b", "b", "b b", "b (x=1),y"])
    nf = NestedFrame({"a": np.arange(n, dtype=np.int64) * 3, bname: np.array([i / 2.0 for i in range(n)])}, index=index)
    names = rng.choice([["n", "m"], ["n", "m"], ["light curve", "m"], ["obj", "obj_lc"], ["lc", "lc2"], ["n;1", "n"]])[:k]
    fsuffix = rng.choice(["", "", " (mJy)"])
    for jn, nm in enumerate(names):
        ty = [[f"{'nm'[jn]}{j}{fsuffix}", t] for j, t in enumerate(rng.sample(gen.TYNAMES, rng.randint(1, 3)))]
        s = Subject(ctx, allow_hidden=False, nrows=n, ty=ty)
        subs.append(s)
        nf[nm] = pd.Series(s.fresh_ext(), index=nf.index, name=nm)
    nf["c"] = np.array([f"s{i}" for i in range(n)], dtype=object)
    return nf, dict(zip(names, subs)), idx_kind


def write(nf, cfg, ctx):
    kw = {}
    if cfg["row_group_size"]:
        kw["row_group_size"] = cfg["row_group_size"]
    kw["compression"] = cfg["compression"]
    kw["use_dictionary"] = cfg["use_dictionary"]
    if cfg["path"]:
        d = tempfile.mkdtemp(prefix="npv-c08-", dir=os.environ.get("NPV_SCRATCH", "/var/tmp"))
        p = os.path.join(d, "f.parquet")
        nf.to_parquet(p, **kw)
        return p, d
    buf = io.BytesIO()
    nf.to_parquet(buf, **kw)
    return buf, None


def opened(src):
    if isinstance(src, io.BytesIO):
        src.seek(0)
    return src


def cleanup(d):
    if d:
        import shutil
        shutil.rmtree(d, ignore_errors=True)


def rand_cfg(rng):
    return {"row_group_size": rng.choice([None, 1, 2, 3]), "compression": rng.choice(["none", "snappy", "zstd", "gzip"]),
            "use_dictionary": rng.random() < 0.5, "path": rng.random() < 0.3}


def expected_full(nf, idx_kind):
    """what the full read should give: a non-default index comes back as a column (pandas' naming)"""
    v = frame_view(nf)
    return v


def case_roundtrip(ctx):
    from nested_pandas import read_parquet
    import pyarrow.parquet as pq
    rng = ctx.rng
    nf, subs, idx_kind = build(ctx)
    cfg = rand_cfg(rng)
    w = call_real(lambda: write(nf, cfg, ctx))
    if "err" in w:
        # writing a valid frame must succeed in every configuration (first half of the round trip)
        ctx.case("parquet.write", {"cfg": cfg, "index": idx_kind, "frame": {k: s.desc() for k, s in subs.items()}}, w, None,
                 {"ok": True}, features=(f"rg={cfg['row_group_size']}", f"n={len(nf)}"), spec_ok=False, nontrivial=True)
        return
    src, d = w["ok"]
    try:
        feats = (f"index={idx_kind}", f"rg={cfg['row_group_size']}", cfg["compression"], f"dict={cfg['use_dictionary']}",
                 f"path={cfg['path']}", f"n={len(nf)}")
        inp = {"cfg": cfg, "index": idx_kind, "frame": {k: s.desc() for k, s in subs.items()}}
        before = frame_view(nf)
        back = call_real(lambda: read_parquet(opened(src)))
        if "err" in back:
            ctx.case("parquet.full_read", inp, back, None, {"ok": True}, features=feats, spec_ok=False)
            return
        r = back["ok"]
        got = frame_view(r)
        # compare column by column: arrow-typed base columns come back; the index as a column when not default
        exp_cols = [c for c in before["cols"]]
        got_cols = {c[0]: c for c in got["cols"]}
        ok = got["cls"] == "NestedFrame"
        detail = {}
        names_expected = [c[0] for c in exp_cols]
        extra = [c for c in got_cols if c not in names_expected]
        if idx_kind == "default":
            ok = ok and extra == []
        else:
            ok = ok and len(extra) == 1
            if len(extra) == 1:
                detail["index_column"] = extra[0]
                ok = ok and [weak(x) for x in got_cols[extra[0]][3]] == [({"s": l} if isinstance(l, str) else l) for l in before["index"]]
        ok = ok and [c for c in [x[0] for x in got["cols"]] if c in names_expected] == names_expected
        for c in exp_cols:
            g = got_cols.get(c[0])
            if g is None:
                ok = False
                continue
            if c[1] == "nest":
                same = g[1] == "nest" and g[2] == c[2]
            else:
                same = g[1] == "base" and g[3] == c[3]
            detail[c[0]] = same
            ok = ok and same
        ctx.case("parquet.full_read", inp, {"ok": {"columns": [x[0] for x in got["cols"]], "detail": detail}}, None,
                 {"ok": "same columns, order, rows, values, nested dtypes and per-row content"}, features=feats, spec_ok=bool(ok),
                 nontrivial=len(nf) > 0)
        ctx.case("parquet.receiver_unchanged", inp, {"ok": frame_view(nf) == before}, None, {"ok": True}, features=feats)
        # the file is plain: no metadata, nested columns are structs of equal-length lists with the same content
        def plain():
            t = pq.read_table(opened(src))
            out = {"metadata": t.schema.metadata is None or not any(b"pandas" in k or b"ARROW:extension" in k for k in t.schema.metadata)}
            for nm, s in subs.items():
                col = t.column(nm)
                out[nm] = {"is_struct_of_lists": pa.types.is_struct(col.type) and all(pa.types.is_list(f.type) for f in col.type),
                           "no_field_metadata": all(f.metadata is None for f in t.schema),
                           "rows": weak_rows(export.rows_view(NestedExtensionArray(col)))}
            return out
        exp = {"metadata": True}
        for nm, s in subs.items():
            exp[nm] = {"is_struct_of_lists": True, "no_field_metadata": True, "rows": weak_rows(s.content["rows"])}
        ctx.case("parquet.plain_arrow_reads", inp, call_real(plain), None, {"ok": exp}, features=feats, nontrivial=len(nf) > 0)
        # column / field selections
        schema = [[c[0], ("base" if c[1] == "base" else [f for f, _ in c[2]["ty"]])] for c in before["cols"]]
        sels = selections(rng, schema, ctx.budget(4, 12))
        full = r
        for cols in sels:
            m = ctx.driver.call("io.readCols", schema=schema, columns=cols, reject=[])["model"]
            real = call_real(lambda: read_parquet(opened(src), columns=cols))
            if "ok" in real:
                p = real["ok"]
                rk = []
                for c in p.columns:
                    t = p[c].dtype
                    rk.append([str(c), list(t.field_names) if isinstance(t, NestedDtype) else
                               ("plain" if isinstance(t, pd.ArrowDtype) and (pa.types.is_list(t.pyarrow_dtype) or pa.types.is_struct(t.pyarrow_dtype)) else "base")])
                realc = {"ok": rk}
            else:
                realc = real
            # spec: exactly the requested columns/fields (whole columns in request order, regrouped nests after them, their
            # fields in request order), unless the request mixes a nest and one of its fields (refused)
            conflict = any(c in [x.split(".")[0] for x in cols if "." in x] for c in cols)
            kinds = dict((c, k) for c, k in schema)
            if conflict:
                spec_ok = "err" in real
                spec = {"err": "ValueError"}
            else:
                whole = [[c, kinds[c]] for c in cols if c in kinds]
                groups = {}
                for c in cols:
                    if c not in kinds:
                        nn, ff = c.split(".")
                        groups.setdefault(nn, []).append(ff)
                want = whole + [[nn, ffs] for nn, ffs in groups.items()]
                spec = {"ok": want}
                spec_ok = realc == spec
            ctx.case("parquet.selection.columns", {**inp, "columns": cols}, realc, m, spec, features=feats + (f"k={len(cols)}",),
                     spec_ok=spec_ok, nontrivial=True)
            if "ok" in real and not conflict:
                # same rows, same values as in the full read (missing rows: see known finding K3)
                p = real["ok"]
                same = len(p) == len(full)
                hyp = {"missing": False}
                bad = []
                for c in p.columns:
                    if isinstance(p[c].dtype, NestedDtype) and c in full.columns and isinstance(full[c].dtype, NestedDtype):
                        prow = weak_rows(export.rows_view(p[c].array))
                        frow = weak_rows(export.rows_view(full[c].array))
                        want = [None if fr is None else [[f, cells] for f, cells in fr if f in p[c].dtype.field_names] for fr in frow]
                        want = [None if w is None else sorted(w, key=lambda x: p[c].dtype.field_names.index(x[0])) for w in want]
                        if any(fr is None for fr in frow):
                            hyp["missing"] = True
                        if prow != want:
                            bad.append(str(c))
                    else:
                        try:
                            if c not in full.columns or repr(p[c].tolist()) != repr(full[c].tolist()):
                                bad.append(str(c))
                        except Exception:  # noqa: BLE001
                            bad.append(str(c))
                ctx.case("parquet.selection.values", {**inp, "columns": cols}, {"ok": {"same_len": same, "differs": bad}}, None,
                         {"ok": {"same_len": True, "differs": []}}, hyp=hyp, features=feats, mode="partial_missing" if hyp["missing"] else "spec",
                         nontrivial=len(nf) > 0)
    finally:
        cleanup(d)


def selections(rng, schema, k):
    names = [c for c, _ in schema]
    leaves = [f"{c}.{f}" for c, kind in schema if kind != "base" for f in kind]
    out = []
    for _ in range(k):
        pool = names + leaves
        sel = rng.sample(pool, rng.randint(1, min(5, len(pool))))
        out.append(sel)
    # directed: interleaved fields of two nests, full + partial of one nest, base only
    nests = [c for c, kind in schema if kind != "base"]
    if len(nests) >= 2:
        l0 = [f"{nests[0]}.{f}" for f in dict(schema)[nests[0]]]
        l1 = [f"{nests[1]}.{f}" for f in dict(schema)[nests[1]]]
        inter = [x for pair in itertools.zip_longest(l0, l1) for x in pair if x]
        out.append(inter)
        out.append(inter + ["a"])
    if nests:
        out.append([nests[0], f"{nests[0]}.{dict(schema)[nests[0]][0]}"])
    # directed: a whole column whose label is a string prefix of the label of a partially loaded nest
    for c in names:
        for nn in nests:
            if nn != c and nn.startswith(c):
                out.append([c, f"{nn}.{dict(schema)[nn][0]}"])
                out.append([f"{nn}.{dict(schema)[nn][-1]}", c])
    return out


def case_foreign_file(ctx):
    """files produced by plain pyarrow rather than by the library"""
    from nested_pandas import read_parquet
    import pyarrow.parquet as pq
    rng = ctx.rng
    s = Subject(ctx, allow_hidden=False)
    n = len(s.content["rows"])
    tbl = pa.table({"id": pa.array(list(range(n)), type=pa.int64()), "lc": s.ca})
    buf = io.BytesIO()
    pq.write_table(tbl, buf, row_group_size=rng.choice([None, 1, 2]))
    buf.seek(0)
    real = call_real(lambda: (lambda r: {"cls": type(r).__name__, "dtype_nested": isinstance(r["lc"].dtype, NestedDtype),
                                         "rows": weak_rows(export.rows_view(r["lc"].array)), "id": [int(v) for v in r["id"]]})(read_parquet(buf)))
    ctx.case("parquet.foreign_file", s.desc(), real, None,
             {"ok": {"cls": "NestedFrame", "dtype_nested": True, "rows": weak_rows(s.content["rows"]), "id": list(range(n))}},
             hyp=s.hyp, features=s.features, nontrivial=s.nontrivial())
    # a file written from a pandas frame by plain pyarrow: it carries pandas metadata, and the reader restores the
    # frame's own (non-default) index — every nested table stays with its label and base value
    if n >= 2:
        labels = gen.rand_labels(rng, n, kind=rng.choice(["int", "str"]), pattern="unique_unsorted")
        pdf = pd.DataFrame({"id": np.arange(n, dtype=np.int64),
                            "lc": pd.Series(s.ca, dtype=pd.ArrowDtype(s.ca.type), index=pd.Index(labels))}, index=pd.Index(labels))
        buf2 = io.BytesIO()
        pq.write_table(pa.Table.from_pandas(pdf), buf2)
        buf2.seek(0)

        def with_index():
            r = read_parquet(buf2)
            return {"cls": type(r).__name__, "dtype_nested": isinstance(r["lc"].dtype, NestedDtype), "index": export.labels(r.index),
                    "rows": weak_rows(export.rows_view(r["lc"].array)), "id": [int(v) for v in r["id"]]}
        ctx.case("parquet.foreign_file.pandas_index", {**s.desc(), "labels": labels}, call_real(with_index), None,
                 {"ok": {"cls": "NestedFrame", "dtype_nested": True, "index": [export.label(l) for l in labels],
                         "rows": weak_rows(s.content["rows"]), "id": list(range(n))}},
                 hyp=s.hyp, features=s.features + ("pandas_index",), nontrivial=s.nontrivial())
    # reject_nesting is respected
    buf.seek(0)
    real = call_real(lambda: str(read_parquet(buf, reject_nesting="lc")["lc"].dtype).startswith("struct"))
    ctx.case("parquet.reject_nesting", s.desc(), real, None, {"ok": True}, hyp=s.hyp, features=s.features)


def case_uneven_row_groups(ctx):
    """files whose row groups have very different sizes (a handful of rows next to a thousand and more, in either
    order — written batch by batch with plain pyarrow, or by to_parquet with a row group size that leaves a short
    tail): every nested row still belongs to the base row it was written with"""
    import pyarrow.parquet as pq
    from nested_pandas import read_parquet
    rng = ctx.rng
    patterns = [(12, 1100), (5, 1024), (1100, 12), (300, 1500, 7), (1, 2000), (1030, 3, 1030)]
    k_case = getattr(ctx, "_uneven_count", 0)
    ctx._uneven_count = k_case + 1
    sizes = list(patterns[k_case % len(patterns)])       # every pattern in turn
    n = sum(sizes)
    ids = np.arange(n, dtype=np.int64)
    lens = (ids % 4).astype(np.int64)              # row i holds i % 4 records, every record carries the number i
    offs = np.concatenate([[0], np.cumsum(lens)]).astype(np.int32)
    flat_ids = np.repeat(ids, lens)
    st = pa.StructArray.from_arrays(
        [pa.ListArray.from_arrays(pa.array(offs), pa.array(flat_ids)),
         pa.ListArray.from_arrays(pa.array(offs), pa.array(flat_ids.astype(np.float64) / 2))], names=["a", "b"])
    via = "pyarrow_batches" if k_case < len(patterns) else rng.choice(["pyarrow_batches", "to_parquet_tail"])
    buf = io.BytesIO()
    if via == "pyarrow_batches":
        tbl = pa.table({"id": pa.array(ids), "nest": st})
        w = pq.ParquetWriter(buf, tbl.schema)
        at = 0
        for k in sizes:
            w.write_table(tbl.slice(at, k))
            at += k
        w.close()
    else:
        nf0 = NestedFrame({"id": ids, "nest": pd.Series(NestedExtensionArray(st))})
        nf0.to_parquet(buf, row_group_size=max(sizes))
    buf.seek(0)

    def run():
        nf = read_parquet(buf)
        assert isinstance(nf["nest"].dtype, NestedDtype), f"nest came back as {nf['nest'].dtype}"
        got_ids = np.asarray(nf["id"], dtype=np.int64)
        ll = np.asarray(nf["nest"].nest.list_lengths, dtype=np.int64)
        flat = nf["nest"].nest.to_flat()
        owner = np.repeat(got_ids, ll)
        return {"rows": int(len(nf)), "ids_in_order": bool((got_ids == ids).all()),
                "lengths_belong_to_ids": bool((ll == got_ids % 4).all()),
                "records_belong_to_rows": bool(len(flat) == len(owner) and (np.asarray(flat["a"], dtype=np.int64) == owner).all()
                                               and (np.asarray(flat["b"], dtype=np.float64) * 2 == owner).all())}
    ctx.case("parquet.uneven_row_groups", {"sizes": sizes, "via": via}, call_real(run), None,
             {"ok": {"rows": n, "ids_in_order": True, "lengths_belong_to_ids": True, "records_belong_to_rows": True}},
             features=("uneven_row_groups", via), nontrivial=True)


def run_all(ctx):
    for _ in range(ctx.budget(8, 24)):
        case_uneven_row_groups(ctx)
    for i in range(ctx.budget(60, 800)):
        case_roundtrip(ctx)
        if i % 3 == 0:
            case_foreign_file(ctx)
