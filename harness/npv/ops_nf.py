"""Frame-level correspondence cases: query (C07), add_nested/from_flat/from_lists (C09), reduce (C10),
sort_values (C11), dropna (C12), eval (C13)."""
import math

from . import gen, export
from .common import pa, pd, np, weak_rows, weak, TYPES, dec_cell, enc_cell, NestedExtensionArray, NestedDtype, NestedFrame
from .runner import call_real
from .subject import Subject

IDENT_NEST = "nest"


# ---- frames ------------------------------------------------------------------------------------

def base_cells(series):
    dt = series.dtype
    if dt == np.int64:
        return "int64", [int(v) for v in series.tolist()]
    if dt == np.float64:
        return "double", ["nan" if (v != v) else {"f": int(2 * v)} for v in series.tolist()]
    if dt == np.bool_:
        return "bool", [bool(v) for v in series.tolist()]
    if isinstance(dt, pd.ArrowDtype):
        t = export.tystr(dt.pyarrow_dtype)
        return t, export.arrow_values_to_cells(pa.array(series), t)
    return "string", [None if (v is None or v is pd.NA or (isinstance(v, float) and v != v)) else {"s": str(v)} for v in series.tolist()]


def frame_json(nf):
    """physical export of a frame for the driver"""
    cols = []
    for c in nf.columns:
        s = nf[c]
        if isinstance(s.dtype, NestedDtype):
            cols.append([str(c), "nest", export.export_ext(s.array)])
        else:
            t, cells = base_cells(s)
            cols.append([str(c), "base", t, cells])
    return {"index": export.labels(nf.index), "cols": cols}


def frame_view(nf):
    """logical view of a real frame, comparable with frameToJson / specFrameToJson (after `norm_frame`)"""
    cols = []
    for c in nf.columns:
        s = nf[c]
        if isinstance(s.dtype, NestedDtype):
            cols.append([str(c), "nest", {"ty": export.dtype_ty(s.dtype), "rows": weak_rows(export.rows_view(s.array))}])
        else:
            t, cells = base_cells(s)
            cols.append([str(c), "base", t, [weak(x) for x in cells]])
    return {"index": export.labels(nf.index), "cols": cols, "cls": type(nf).__name__}


def norm_frame(j, cls="NestedFrame"):
    """model/spec frame answer -> comparable"""
    if j is None or "err" in j:
        return j
    f = j["ok"]
    cols = []
    for c in f["cols"]:
        if c[1] == "nest":
            cols.append([c[0], "nest", {"ty": c[2]["ty"], "rows": weak_rows(c[2]["rows"])}])
        else:
            cols.append([c[0], "base", c[2], [weak(x) for x in c[3]]])
    return {"ok": {"index": f["index"], "cols": cols, "cls": cls}}


def prehistory(ctx, nf, s: Subject, nest_name, labels):
    """An in-place history on the frame's own nested array BEFORE the operation under test:
    (1) every observer a later operation may have memoised is read (also through a query / dropna
    / sort that return new frames), (2) one or two rows are replaced in place by tables of another
    size.  The subject continues with the resulting storage and content; the operation under test
    must behave as on a frame built afresh from that content (C16) — and as its property says."""
    from .ops_array import df_of_row
    rng = ctx.rng
    arr = nf[nest_name].array
    n = len(arr)
    if n == 0:
        return
    qn = q(nest_name)
    f0 = s.ty[0][0]
    readers = [lambda: arr.list_lengths, lambda: arr.flat_length, lambda: arr.list_offsets, lambda: arr.get_list_index(),
               lambda: arr.isna(), lambda: nf.nested_columns, lambda: nf.all_columns,
               lambda: nf[nest_name].nest.to_flat(), lambda: nf[nest_name].nest.to_lists(),
               lambda: nf.query("id > -1"), lambda: nf.dropna(on_nested=nest_name),
               lambda: nf.sort_values(f"{qn}.{q(f0)}"), lambda: nf.reduce(lambda x: {"k": 0}, f"{qn}.{q(f0)}")]
    for r in rng.sample(readers, rng.randint(3, len(readers))):
        try:
            r()
        except Exception:   # the reader itself is judged elsewhere
            pass
    rows = [r for r in s.content["rows"]]
    uniq = len(set(map(str, labels))) == len(labels)
    steps = []
    for _ in range(rng.randint(1, 2)):
        i = rng.randrange(n)
        new_row = gen.rand_row(rng, s.ty, p_missing=0.15, p_empty=0.15, maxlen=4)
        how = rng.choice(["array", "at"]) if (uniq and new_row is not None) else "array"
        val = df_of_row(new_row, s.ty)
        try:
            if how == "at":
                nf.at[nf.index[i], nest_name] = val
            else:
                arr[i] = val
        except Exception as e:
            ctx.case("prehistory.setitem", {**s.desc(), "pos": i, "row": new_row, "how": how},
                     {"err": type(e).__name__, "msg": str(e)[:120]}, None, {"ok": True}, hyp=s.hyp)
            return
        rows[i] = new_row
        steps.append([i, how])
    s.adopt(ctx, nf[nest_name].array, rows)
    ctx.case("prehistory.setitem", {**s.desc(), "steps": steps}, {"ok": weak_rows(s.abs_rows)}, None,
             {"ok": weak_rows(rows)}, hyp=s.hyp, features=s.features, nontrivial=True)


def mk_nf(ctx, s: Subject, labels=None, with_other=True, nest_name=IDENT_NEST, base_nan=False, history=None):
    rng = ctx.rng
    n = len(s.content["rows"])
    index = None
    if labels is None and rng.random() < 0.2:
        # a genuine pd.RangeIndex that is not 0..n-1 (what iloc[k:] / [::2] leave on a default-indexed frame)
        start, step = rng.randint(1, 4), rng.choice([1, 1, 2, 3])
        index = pd.RangeIndex(start, start + n * step, step)
        labels = list(index)
    labels = labels if labels is not None else gen.rand_labels(rng, n)
    d = {"id": np.arange(n, dtype=np.int64),
         "x": np.array([rng.randint(-4, 8) / 2.0 for _ in range(n)], dtype=np.float64)}
    if base_nan:
        for i in range(n):
            if rng.random() < 0.2:
                d["x"][i] = float("nan")
    nf = NestedFrame(d, index=index if index is not None else pd.Index(labels))
    nf[nest_name] = pd.Series(s.fresh_ext(), index=nf.index, name=nest_name)
    other = None
    if with_other:
        other = Subject(ctx, nrows=n, allow_hidden=False)
        nf["other"] = pd.Series(other.fresh_ext(), index=nf.index, name="other")
    if history if history is not None else (rng.random() < 0.25):
        prehistory(ctx, nf, s, nest_name, labels)
    return nf, labels, other


# ---- expressions --------------------------------------------------------------------------------

def q(name):
    return name if name.isidentifier() and name not in ("class", "import", "in", "is", "not", "and", "or") else f"`{name}`"


def rand_const(rng, t):
    if t == "int64":
        return rng.randint(-2, 5)
    if t == "double":
        return {"f": rng.randint(-4, 10)}
    if t == "string":
        return {"s": rng.choice(["a", "b", "ab", ""])}
    return rng.random() < 0.5


def const_str(c):
    if isinstance(c, bool):
        return "True" if c else "False"
    if isinstance(c, int):
        return f"({c})" if c < 0 else str(c)
    if "f" in c:
        v = c["f"] / 2.0
        return f"({v!r})" if v < 0 else repr(v)
    return '"' + c["s"] + '"'


def rand_arith(rng, nest, fields, depth):
    """numeric expression -> (json, str, is_double)"""
    nums = [(n, t) for n, t in fields if t in ("int64", "double")]
    n, t = rng.choice(nums)
    e = ({"op": "field", "nest": nest, "name": n}, (f"{q(nest)}.{q(n)}" if nest else q(n)), t == "double")
    for _ in range(rng.randint(0, depth)):
        c = rng.choice(["+", "-", "*", "+f"])
        if c == "*":
            k = rng.randint(-2, 3)
            e = ({"op": "ar", "c": "*", "l": e[0], "r": {"op": "const", "v": k}}, f"({e[1]} * {const_str(k)})", e[2])
        elif c == "+f":
            n2, t2 = rng.choice(nums)
            f2 = {"op": "field", "nest": nest, "name": n2}
            e = ({"op": "ar", "c": "+", "l": e[0], "r": f2}, f"({e[1]} + {(q(nest) + '.' + q(n2)) if nest else q(n2)})", e[2] or t2 == "double")
        else:
            k = rand_const(rng, rng.choice(["int64", "double"]))
            e = ({"op": "ar", "c": c, "l": e[0], "r": {"op": "const", "v": k}}, f"({e[1]} {c} {const_str(k)})",
                 e[2] or isinstance(k, dict))
    return e


def rand_cond(rng, nest, fields, depth=2):
    """boolean expression over the fields of one layer -> (json, str)"""
    if depth > 0 and rng.random() < 0.45:
        k = rng.choice(["and", "or", "not"])
        if k == "not":
            a = rand_cond(rng, nest, fields, depth - 1)
            return {"op": "not", "e": a[0]}, f"(not {a[1]})"
        a, b = rand_cond(rng, nest, fields, depth - 1), rand_cond(rng, nest, fields, depth - 1)
        return {"op": k, "l": a[0], "r": b[0]}, f"({a[1]} {k} {b[1]})"
    usable = [(n, t) for n, t in fields if t in ("int64", "double", "string", "bool")]
    n, t = rng.choice(usable)
    ref = f"{q(nest)}.{q(n)}" if nest else q(n)
    fj = {"op": "field", "nest": nest, "name": n}
    if t in ("int64", "double"):
        if rng.random() < 0.4:
            a = rand_arith(rng, nest, fields, 2)
            fj, ref = a[0], a[1]
        c = rng.choice(["<", "<=", "==", "!=", ">=", ">"])
        k = rand_const(rng, rng.choice(["int64", "double"]))
        return {"op": "cmp", "c": c, "l": fj, "r": {"op": "const", "v": k}}, f"({ref} {c} {const_str(k)})"
    if t == "string":
        c = rng.choice(["==", "!=", "<", ">="])
        k = rand_const(rng, "string")
        return {"op": "cmp", "c": c, "l": fj, "r": {"op": "const", "v": k}}, f"({ref} {c} {const_str(k)})"
    c = rng.choice(["==", "!="])
    k = rand_const(rng, "bool")
    return {"op": "cmp", "c": c, "l": fj, "r": {"op": "const", "v": k}}, f"({ref} {c} {const_str(k)})"


def usable_ty(ty):
    return any(t in ("int64", "double", "string", "bool") for _, t in ty)


# ---- C07 query ----------------------------------------------------------------------------------

def case_query(ctx, s: Subject, nest_name=IDENT_NEST):
    rng = ctx.rng
    if not usable_ty(s.ty):
        return
    nf, labels, other = mk_nf(ctx, s, nest_name=nest_name)
    fj = frame_json(nf)
    ej, es = rand_cond(rng, nest_name, s.ty, depth=rng.choice([0, 1, 2, 3]))
    inplace = rng.random() < 0.25
    before = frame_view(nf)

    def run():
        if inplace:
            nf2 = nf.copy()
            r = nf2.query(es, inplace=True)
            assert r is None
            return frame_view(nf2)
        return frame_view(nf.query(es))
    real = call_real(run)
    ans = ctx.driver.call("frame.query", frame=fj, expr=ej)
    ok_unchanged = frame_view(nf) == before
    ctx.case("query.nested", {**s.desc(), "labels": labels, "expr": es, "expr_json": ej, "inplace": inplace,
                              "other": other.desc() if other else None},
             real, norm_frame(ans["model"]), norm_frame(ans["spec"]), hyp=s.hyp,
             features=s.features + (f"inplace={inplace}", f"labels={'dup' if len(set(map(str, labels))) < len(labels) else 'uniq'}"),
             nontrivial=s.nontrivial())
    if not ok_unchanged:
        ctx.case("query.receiver_unchanged", {**s.desc(), "expr": es}, {"ok": False}, None, {"ok": True}, hyp=s.hyp)


def case_query_base(ctx, s: Subject, inplace=None, label_pattern=None):
    rng = ctx.rng
    lab = gen.rand_labels(rng, len(s.content["rows"]), pattern=label_pattern) if label_pattern else None
    nf, labels, other = mk_nf(ctx, s, base_nan=True, labels=lab)
    fj = frame_json(nf)
    ej, es = rand_cond(rng, None, [["id", "int64"], ["x", "double"]], depth=rng.choice([0, 1, 2]))
    inplace = (rng.random() < 0.4) if inplace is None else inplace

    def run():
        if inplace:
            nf2 = nf.copy()
            assert nf2.query(es, inplace=True) is None
            return frame_view(nf2)
        return frame_view(nf.query(es))
    real = call_real(run)
    ans = ctx.driver.call("frame.query", frame=fj, expr=ej)
    # spec (python): rows whose base values satisfy the condition, nested tables intact — computed by the model's
    # elementwise evaluator on base values; independent oracle below recomputes with pandas on a plain DataFrame
    plain = pd.DataFrame({"id": nf["id"].to_numpy(), "x": nf["x"].to_numpy()})
    keep = plain.eval(es).to_numpy().astype(bool)
    before = frame_view(nf)
    exp = {"index": [l for l, k in zip(before["index"], keep) if k], "cls": "NestedFrame", "cols": []}
    for c in before["cols"]:
        if c[1] == "nest":
            exp["cols"].append([c[0], "nest", {"ty": c[2]["ty"], "rows": [r for r, k in zip(c[2]["rows"], keep) if k]}])
        else:
            exp["cols"].append([c[0], "base", c[2], [v for v, k in zip(c[3], keep) if k]])
    ctx.case("query.base", {**s.desc(), "labels": labels, "expr": es, "expr_json": ej, "inplace": inplace}, real,
             norm_frame(ans["model"]), {"ok": exp}, hyp=s.hyp,
             features=s.features + (f"inplace={inplace}", f"dup={len(set(map(str, labels))) < len(labels)}"),
             nontrivial=s.nontrivial())


def case_query_mixed(ctx, s: Subject):
    """a condition mixing layers (two nests, or a nest and the base layer) is refused"""
    rng = ctx.rng
    if not usable_ty(s.ty):
        return
    quoted = rng.random() < 0.5
    nest_name = "my nest" if (quoted and rng.random() < 0.5) else IDENT_NEST
    nf, labels, other = mk_nf(ctx, s, nest_name=nest_name)
    other_name, base_fields = "other", [["id", "int64"], ["x", "double"]]
    if quoted:
        # names that need backticks in an expression: the refusal must not depend on how a name is spelled
        nf["base col"] = nf["x"] * 2.0
        nf = nf.rename(columns={"other": "other nest"})
        other_name, base_fields = "other nest", [["base col", "double"]]
    a = rand_cond(rng, nest_name, s.ty, 0)
    if rng.random() < 0.5 and usable_ty(other.ty):
        b = rand_cond(rng, other_name, other.ty, 0)
    else:
        b = rand_cond(rng, None, base_fields, 0)
    if rng.random() < 0.5:
        a, b = b, a
    k = rng.choice(["and", "or"])
    ej = {"op": k, "l": a[0], "r": b[0]}
    es = f"{a[1]} {k} {b[1]}"
    real = call_real(lambda: frame_view(nf.query(es)))
    ans = ctx.driver.call("frame.query", frame=frame_json(nf), expr=ej)
    ctx.case("query.mixed", {**s.desc(), "expr": es}, real, norm_frame(ans["model"]), {"err": "ValueError"}, hyp=s.hyp,
             features=s.features + (f"quoted={quoted}",), spec_ok="err" in real)


def case_query_mixed_arith(ctx):
    """layers mixed INSIDE a comparison or an arithmetic sub-expression (`nest.f + x > 3`, `nest.f > x`): refused like a
    mix across `and` / `or` — also on frames where pandas could broadcast the base column over the records by label
    (unique labels, a record in every row)"""
    rng = ctx.rng
    ty = gen.rand_ty(rng, types=["int64", "double"])
    broadcastable = rng.random() < 0.6
    kw = dict(p_missing=0.0, p_empty=0.0, p_null=0.0, p_nan=0.0) if broadcastable else {}
    n = rng.randint(1, 5)
    content = {"ty": ty, "rows": [gen.rand_row(rng, ty, **kw) for _ in range(n)]}
    labels = gen.rand_labels(rng, n, pattern=rng.choice(["unique_sorted", "unique_unsorted", "range"]) if broadcastable else None)
    s = Subject(ctx, content=content, allow_hidden=False)
    nf, labels, other = mk_nf(ctx, s, labels=labels)
    f = rng.choice([nm for nm, _ in ty])
    c = rng.randint(-3, 6)
    forms = [f"nest.{f} + x > {c}", f"x + nest.{f} > {c}", f"nest.{f} > x", f"id < nest.{f}", f"2 * nest.{f} - x > {c}",
             f"(nest.{f} - x > {c}) & (nest.{f} < 5)", f"nest.{f} * id == {c}", f"-(nest.{f} + id) < {c}"]
    if usable_ty(other.ty) and any(t in ("int64", "double") for _, t in other.ty):
        g = next(nm for nm, t in other.ty if t in ("int64", "double"))
        forms += [f"nest.{f} + other.{g} > {c}", f"nest.{f} < other.{g}"]
    es = rng.choice(forms)
    real = call_real(lambda: frame_view(nf.query(es)))
    ctx.case("query.mixed", {**s.desc(), "labels": labels, "expr": es}, real, None, {"err": "ValueError"}, hyp=s.hyp,
             features=s.features + ("mixed_inside_term", f"broadcastable={broadcastable}"), spec_ok="err" in real)


def case_query_flat(ctx, s: Subject):
    """the accessor variant: series.nest.query_flat"""
    rng = ctx.rng
    if not usable_ty(s.ty):
        return
    n = len(s.content["rows"])
    labels = gen.rand_labels(rng, n, pattern=rng.choice(["unique_sorted", "range", "dup_sorted"]))
    ser = gen.mk_series(s.ca, labels, "nest")
    ej, es = rand_cond(rng, None, s.ty, depth=1)
    rows = s.content["rows"]
    # oracle: per label (ascending, distinct) the records of that label that satisfy the condition
    ans = ctx.driver.call("frame.query", frame={"index": list(range(n)), "cols": [["nest", "nest", s.phys]]},
                          expr=retarget(ej, "nest"))
    real = call_real(lambda: (lambda r: {"index": export.labels(r.index), "rows": weak_rows(export.rows_view(r.array))})(ser.nest.query_flat(es)))
    if "ok" in ans["spec"]:
        frows = weak_rows(ans["spec"]["ok"]["cols"][0][2]["rows"])
        exp_idx, exp_rows = [], []
        for l in sorted(set(labels)):
            parts = [frows[i] for i in range(n) if labels[i] == l and frows[i] is not None]
            if not parts:
                continue
            merged = [[f, sum([dict(map(tuple, p))[f] for p in parts], [])] for f, _ in s.ty]
            exp_idx.append(export.label(l))
            exp_rows.append(merged)
        spec = {"ok": {"index": exp_idx, "rows": exp_rows}}
    else:
        spec = {"err": True}
    ctx.case("nest.query_flat", {**s.desc(), "labels": labels, "expr": es}, real, None, spec, hyp=s.hyp, features=s.features,
             nontrivial=s.nontrivial())


def retarget(ej, nest):
    if ej["op"] == "field":
        return {**ej, "nest": nest}
    return {k: (retarget(v, nest) if isinstance(v, dict) and "op" in v else v) for k, v in ej.items()}


# ---- C12 dropna ---------------------------------------------------------------------------------

def case_dropna(ctx, s: Subject, nest_name=IDENT_NEST):
    rng = ctx.rng
    nf, labels, other = mk_nf(ctx, s, nest_name=nest_name)
    fj = frame_json(nf)
    names = [n for n, _ in s.ty]
    kw = {}
    jargs = {"how": "any", "thresh": None, "subset": None}
    mode = rng.choice(["how", "how", "thresh", "default"])
    if mode == "how":
        kw["how"] = jargs["how"] = rng.choice(["any", "all"])
    elif mode == "thresh":
        kw["thresh"] = jargs["thresh"] = rng.randint(0, len(names) + 1)
    target = rng.choice(["on_nested", "subset_str", "subset_list", "both"])
    qn = q(nest_name)
    if target in ("subset_str",):
        f = rng.choice(names)
        kw["subset"] = f"{qn}.{q(f)}" if (qn != nest_name or rng.random() < 0.3) else f"{nest_name}.{f}"
        jargs["subset"] = [f]
    elif target in ("subset_list", "both"):
        fs = rng.sample(names, rng.randint(1, len(names)))
        kw["subset"] = [f"{qn}.{q(f)}" if qn != nest_name else f"{nest_name}.{f}" for f in fs]
        jargs["subset"] = fs
        if target == "both":
            kw["on_nested"] = nest_name
    else:
        kw["on_nested"] = nest_name
    inplace = rng.random() < 0.25
    before = frame_view(nf)

    exact = {}

    def run():
        if inplace:
            nf2 = nf.copy()
            assert nf2.dropna(inplace=True, **kw) is None
        else:
            nf2 = nf.dropna(**kw)
        # the records that stay, cell for cell (NaN and null kept apart): read off the result's storage
        exact["after"] = ctx.driver.call("abs", col=export.export_ext(nf2[nest_name].array))["model"]["col"]["rows"]
        return frame_view(nf2)
    real = call_real(run)
    ans = ctx.driver.call("frame.dropna", frame=fj, nest=nest_name, **jargs)
    if "ok" in real and "after" in exact and ans["model"] is not None and "ok" in ans["model"] and not s.hyp.get("hidden"):
        mrows = next((c[2]["rows"] for c in ans["model"]["ok"]["cols"] if c[0] == nest_name and c[1] == "nest"), None)
        srows = None if ans["spec"] is None or "ok" not in ans["spec"] else next(
            (c[2]["rows"] for c in ans["spec"]["ok"]["cols"] if c[0] == nest_name and c[1] == "nest"), None)
        ctx.case("dropna.nested.exact_cells", {**s.desc(), "labels": labels, "kwargs": kw, "inplace": inplace},
                 {"ok": exact["after"]}, {"ok": mrows}, None if srows is None else {"ok": srows}, hyp=s.hyp,
                 features=s.features + ("exact_cells",), nontrivial=s.nontrivial())
    tgt = ctx.driver.call("frame.dropnaTarget", nested=[nest_name, "other"], onNested=kw.get("on_nested"),
                          subset=None if jargs["subset"] is None else [[nest_name, f] for f in jargs["subset"]])["model"]
    ctx.case("dropna.target", {"kwargs": kw}, {"ok": {"nest": nest_name}} if "ok" in real else {"err": True}, tgt, None,
             features=(target,))
    ctx.case("dropna.nested", {**s.desc(), "labels": labels, "kwargs": kw, "inplace": inplace}, real, norm_frame(ans["model"]),
             norm_frame(ans["spec"]), hyp=s.hyp, features=s.features + (mode, target, f"inplace={inplace}"),
             nontrivial=s.nontrivial())
    if frame_view(nf) != before:
        ctx.case("dropna.receiver_unchanged", {**s.desc(), "kwargs": kw}, {"ok": False}, None, {"ok": True}, hyp=s.hyp)


def case_dropna_base(ctx, s: Subject):
    """aimed at the base layer: pandas dropna on the base columns, a missing nested value counts as missing"""
    rng = ctx.rng
    nf, labels, other = mk_nf(ctx, s, base_nan=True, with_other=False)
    kw = {}
    sub = rng.choice([None, ["x"], ["x", "id"], "x", ["nest"], ["x", "nest"]])
    if sub is not None:
        kw["subset"] = sub
    if rng.random() < 0.5:
        kw["how"] = rng.choice(["any", "all"])
    elif rng.random() < 0.4:
        kw["thresh"] = rng.randint(0, 3)
    rows = weak_rows(s.content["rows"])
    xs = nf["x"].tolist()
    cols = [sub] if isinstance(sub, str) else (sub or ["id", "x", "nest"])
    keep = []
    for i in range(len(rows)):
        na = {"id": False, "x": xs[i] != xs[i], "nest": rows[i] is None}
        flags = [na[c] for c in cols]
        nn = sum(1 for f in flags if not f)
        if "thresh" in kw:
            keep.append(nn >= kw["thresh"])
        elif kw.get("how", "any") == "any":
            keep.append(nn == len(flags))
        else:
            keep.append(nn > 0)
    before = frame_view(nf)
    exp = {"index": [l for l, k in zip(before["index"], keep) if k], "cls": "NestedFrame", "cols": []}
    for c in before["cols"]:
        if c[1] == "nest":
            exp["cols"].append([c[0], "nest", {"ty": c[2]["ty"], "rows": [r for r, k in zip(c[2]["rows"], keep) if k]}])
        else:
            exp["cols"].append([c[0], "base", c[2], [v for v, k in zip(c[3], keep) if k]])
    real = call_real(lambda: frame_view(nf.dropna(**kw)))
    ctx.case("dropna.base", {**s.desc(), "labels": labels, "kwargs": kw}, real, None, {"ok": exp}, hyp=s.hyp, features=s.features,
             nontrivial=s.nontrivial())


def case_dropna_refusals(ctx, s: Subject):
    nf, labels, other = mk_nf(ctx, s)
    f = s.ty[0][0]
    g = other.ty[0][0]
    bads = [
        ("mixed_layers", dict(subset=[f"nest.{f}", f"other.{g}"])),
        ("nest_and_base", dict(subset=[f"nest.{f}", "x"])),
        ("unknown_layer", dict(subset=f"nolayer.{f}")),
        ("on_nested_unknown", dict(on_nested="x")),
        ("on_nested_vs_subset", dict(on_nested="other", subset=f"nest.{f}")),
        ("unknown_field", dict(subset=f"nest.nofield")),
    ]
    before = frame_view(nf)
    for name, kw in bads:
        real = call_real(lambda: frame_view(nf.dropna(**kw)))
        ctx.case(f"dropna.refusal.{name}", {**s.desc(), "kwargs": kw}, real, None, {"err": "ValueError"}, hyp=s.hyp,
                 features=(name,), spec_ok="err" in real)
        if name != "unknown_field":   # the target is resolved before fields are looked up
            sub = kw.get("subset")
            sub = None if sub is None else [x.split(".") for x in ([sub] if isinstance(sub, str) else sub)]
            m = ctx.driver.call("frame.dropnaTarget", nested=["nest", "other"], onNested=kw.get("on_nested"), subset=sub)["model"]
            ctx.case(f"dropna.target.{name}", {"kwargs": kw}, {"err": True} if "err" in real else {"ok": "acted"},
                     {"err": True} if "err" in m else {"ok": "acted"}, None, features=(name,))
    if frame_view(nf) != before:
        ctx.case("dropna.receiver_unchanged", s.desc(), {"ok": False}, None, {"ok": True}, hyp=s.hyp)


# ---- C11 sort_values ----------------------------------------------------------------------------

def case_sort(ctx, s: Subject, nest_name=IDENT_NEST):
    rng = ctx.rng
    nf, labels, other = mk_nf(ctx, s, nest_name=nest_name)
    fj = frame_json(nf)
    names = [n for n, _ in s.ty]
    ks = rng.sample(names, rng.randint(1, min(2, len(names))))
    # a field holding integers beyond 2**53 (exact as int64, colliding as float64) is worth sorting by
    bigf = [n for n, t in s.ty if t == "int64" and any(isinstance(c, int) and not isinstance(c, bool) and abs(c) > 2**53
                                                       for r in s.content["rows"] if r for nn, cs in r if nn == n for c in cs)]
    if bigf and rng.random() < 0.8:
        k0 = rng.choice(bigf)
        ks = [k0] + [k for k in ks if k != k0][:rng.randint(0, 1)]
    qn = q(nest_name)
    repeated = rng.random() < 0.15
    if repeated:
        ks = ks + [ks[0]]      # a key mentioned twice: its first mention (and that mention's direction) decides
    by = [f"{qn}.{q(k)}" if qn != nest_name else f"{nest_name}.{k}" for k in ks]
    asc_form = rng.choice(["bool", "list"]) if not repeated else "list"
    if asc_form == "bool":
        a = rng.random() < 0.6
        ascending, asc_list = a, [a] * len(ks)
    else:
        asc_list = [rng.random() < 0.5 for _ in ks]
        if repeated:
            asc_list[-1] = not asc_list[0]
        ascending = list(asc_list)
    na_first = rng.random() < 0.4
    inplace = rng.random() < 0.25
    by_arg = by[0] if (len(by) == 1 and rng.random() < 0.5) else by
    before = frame_view(nf)

    exact = {}

    def run():
        kw = dict(ascending=ascending, na_position="first" if na_first else "last")
        if inplace:
            nf2 = nf.copy()
            assert nf2.sort_values(by_arg, inplace=True, **kw) is None
        else:
            nf2 = nf.sort_values(by_arg, **kw)
        # exact rows (NaN and null kept apart) of the result, read off its storage by the Lean abstraction
        exact["after"] = ctx.driver.call("abs", col=export.export_ext(nf2[nest_name].array))["model"]["col"]["rows"]
        v = frame_view(nf2)
        for c in v["cols"]:
            if c[0] == nest_name:   # the element view turns an int field with a null into floats: keep the exact cells
                c[2]["rows"] = weak_rows(exact["after"])
        return v
    real = call_real(run)
    keys = [[k, a] for k, a in zip(ks, asc_list)]
    ans = ctx.driver.call("frame.sort", frame=fj, nest=nest_name, keys=keys, naFirst=na_first)
    # relation (C11): everything but the nest unchanged; each row a sorted permutation of its own records
    spec_ok = None
    if "ok" in real:
        got = real["ok"]
        same_rest = (got["index"] == before["index"] and got["cls"] == "NestedFrame"
                     and [c for c in got["cols"] if c[0] != nest_name] == [c for c in before["cols"] if c[0] != nest_name]
                     and [c[0] for c in got["cols"]] == [c[0] for c in before["cols"]])
        chk = ctx.driver.call("frame.sortCheck", before=s.content["rows"], after=exact["after"], keys=keys,
                              naFirst=na_first)["model"]
        spec_ok = bool(same_rest and chk["ok"])
    else:
        spec_ok = False
    has_nan = any(c == "nan" for r in s.content["rows"] if r for n, cs in r if n in ks for c in cs)
    model = norm_frame(ans["model"])
    ctx.case("sort.nested", {**s.desc(), "labels": labels, "by": by_arg, "ascending": ascending, "na_first": na_first,
                             "inplace": inplace}, real, model, None, hyp=s.hyp,
             features=s.features + (f"keys={len(ks)}", asc_form, f"na_first={na_first}", f"nan={has_nan}"), spec_ok=spec_ok,
             nontrivial=s.nontrivial())
    if frame_view(nf) != before:
        ctx.case("sort.receiver_unchanged", s.desc(), {"ok": False}, None, {"ok": True}, hyp=s.hyp)


def case_sort_refusal(ctx, s: Subject):
    nf, labels, other = mk_nf(ctx, s)
    f = s.ty[0][0]
    real = call_real(lambda: frame_view(nf.sort_values([f"nest.{f}", "x"])))
    ctx.case("sort.refusal.mixed", s.desc(), real, None, {"err": "ValueError"}, hyp=s.hyp, spec_ok="err" in real)
    g = other.ty[0][0]
    real = call_real(lambda: frame_view(nf.sort_values([f"nest.{f}", f"other.{g}"])))
    ctx.case("sort.refusal.two_nests", s.desc(), real, None, {"err": "ValueError"}, hyp=s.hyp, spec_ok="err" in real)


# ---- C13 eval -----------------------------------------------------------------------------------

def num_fields(ty):
    return [(n, t) for n, t in ty if t in ("int64", "double")]


def case_frame_getfield(ctx, s: Subject, nest_name=IDENT_NEST):
    """frame['nest.field'] is the flat series of that field (index = the row's label once per record)"""
    rng = ctx.rng
    nf, labels, other = mk_nf(ctx, s, nest_name=nest_name)
    f, t = rng.choice(s.ty)
    path = f"{q(nest_name)}.{q(f)}" if q(nest_name) != nest_name else f"{nest_name}.{f}"
    ans = ctx.driver.call("frame.getField", frame=frame_json(nf), nest=nest_name, field=f)

    def run():
        fs = nf[path]
        return {"index": export.labels(fs.index), "vals": export.arrow_values_to_cells(pa.array(fs), t)}
    ser_ans = ctx.driver.call("getFlatSeries", series={"index": [export.label(l) for l in nf.index.tolist()], "col": s.phys}, field=f)
    ctx.case("frame.getitem_field", {**s.desc(), "labels": labels, "path": path}, call_real(run), ans["model"], ser_ans["spec"],
             hyp=s.hyp, features=s.features, nontrivial=s.nontrivial())


def case_eval(ctx, s: Subject, nest_name=IDENT_NEST):
    rng = ctx.rng
    if not num_fields(s.ty):
        return
    nf, labels, other = mk_nf(ctx, s, nest_name=nest_name)
    fj = frame_json(nf)
    kind = rng.choice(["arith", "cond"])
    if kind == "arith":
        ej, es, _ = rand_arith(rng, nest_name, s.ty, 3)
    else:
        ej, es = rand_cond(rng, nest_name, s.ty, 1)

    def run():
        r = nf.eval(es)
        arr = pa.array(r)
        if isinstance(arr, pa.ChunkedArray):
            arr = arr.combine_chunks()
        t = export.tystr(arr.type)
        return {"index": export.labels(r.index), "ty": t, "vals": export.arrow_values_to_cells(arr, t)}
    real = call_real(run)
    ans = ctx.driver.call("frame.eval", frame=fj, expr=ej)
    ctx.case("eval.expr", {**s.desc(), "labels": labels, "expr": es, "expr_json": ej}, real, ans["model"], ans["spec"], hyp=s.hyp,
             features=s.features + (kind,), nontrivial=s.nontrivial())


def case_eval_assign(ctx, s: Subject, nest_name=IDENT_NEST, target=None):
    rng = ctx.rng
    if not num_fields(s.ty):
        return
    dup = rng.random() < 0.5
    n = len(s.content["rows"])
    labels = gen.rand_labels(rng, n, pattern=None if dup else rng.choice(["unique_sorted", "unique_unsorted", "range"]))
    nf, labels, other = mk_nf(ctx, s, labels=labels, nest_name=nest_name)
    fj = frame_json(nf)
    ej, es, _ = rand_arith(rng, nest_name, s.ty, 2)
    target = target or rng.choice(["existing", "new", "new_nest"])
    names = [x for x, _ in s.ty]
    if target == "existing":
        tn, tf = nest_name, rng.choice(names)
    elif target == "new":
        tn, tf = nest_name, rng.choice(["z", "w_2"])
    else:
        tn, tf = "fresh", rng.choice(names + ["z"])
    inplace = rng.random() < 0.4
    prog = f"{q(tn)}.{q(tf)} = {es}"
    before = frame_view(nf)
    lens = [0 if r is None else len(r[0][1]) for r in s.content["rows"]]
    flat_index = [export.label(l) for l, k in zip(labels, lens) for _ in range(k)]
    hyp = dict(s.hyp)
    # K5: the flat index coincides with the frame index although it is a flat index
    hyp["flat_eq_index"] = bool(flat_index == [export.label(l) for l in labels] and any(k != 1 for k in lens))
    hyp["dup_labels"] = len(set(map(str, labels))) < len(labels)

    def run():
        if inplace:
            nf2 = nf.copy()
            assert nf2.eval(prog, inplace=True) is None
            return frame_view(nf2)
        return frame_view(nf.eval(prog))
    real = call_real(run)
    ans = ctx.driver.call("frame.evalAssign", frame=fj, expr=ej, nest=tn, field=tf)
    # spec: values of the expression on the flat view, stored record by record; everything else unchanged
    ev = ctx.driver.call("frame.eval", frame=fj, expr=ej)["spec"]
    spec = None
    spec_ok = None
    if ev is not None and "ok" in ev:
        vals = [weak(v) for v in ev["ok"]["vals"]]
        rty = ev["ok"]["ty"]
        rows = weak_rows(s.content["rows"])
        if target != "new_nest":
            out_rows, k = [], 0
            for r, ln in zip(rows, lens):
                if r is None:
                    out_rows.append(None)
                    continue
                piece = vals[k:k + ln]
                k += ln
                r2 = [[a, (piece if a == tf else b)] for a, b in r]
                if tf not in names:
                    r2.append([tf, piece])
                out_rows.append(r2)
            ty2 = [[a, (rty if a == tf else b)] for a, b in s.ty] + ([[tf, rty]] if tf not in names else [])
            exp = {"index": before["index"], "cls": "NestedFrame", "cols": [
                (c if c[0] != nest_name else [nest_name, "nest", {"ty": ty2, "rows": out_rows}]) for c in before["cols"]]}
        else:
            # a new nest holding, for each row label, the values whose flat label equals it (C09 semantics)
            new_rows = []
            for l in before["index"]:
                sel = [v for v, fl in zip(vals, flat_index) if fl == l]
                new_rows.append([[tf, sel]] if sel else None)
            exp = {"index": before["index"], "cls": "NestedFrame",
                   "cols": before["cols"] + [["fresh", "nest", {"ty": [[tf, rty]], "rows": new_rows}]]}
        spec = {"ok": exp}
    ctx.case(f"eval.assign.{target}", {**s.desc(), "labels": labels, "program": prog, "inplace": inplace}, real,
             norm_frame(ans["model"]), spec, hyp=hyp, features=s.features + (target, f"inplace={inplace}", f"dup={dup}"),
             nontrivial=s.nontrivial())
    if frame_view(nf) != before:
        ctx.case("eval.receiver_unchanged", {**s.desc(), "program": prog}, {"ok": False}, None, {"ok": True}, hyp=s.hyp)


def case_eval_multiline(ctx, s: Subject, nest_name=IDENT_NEST):
    """later lines see the fields assigned on earlier lines"""
    rng = ctx.rng
    nums = num_fields(s.ty)
    if not nums:
        return
    n = len(s.content["rows"])
    labels = gen.rand_labels(rng, n, pattern=rng.choice(["unique_sorted", "unique_unsorted", "range"]))
    nf, labels, other = mk_nf(ctx, s, labels=labels, nest_name=nest_name)
    N = q(nest_name)
    f, _ = rng.choice(nums)
    k1, k2 = rng.randint(1, 3), rng.randint(1, 3)
    overwrite = rng.random() < 0.5
    first = f if overwrite else "p"
    prog = f"{N}.{first} = {N}.{f} * {k1}\n{N}.r = {N}.{first} + {k2}"
    if rng.random() < 0.4:
        prog += f"\n{N}.t = {N}.r - {N}.{first}"
    inplace = rng.random() < 0.5
    hyp = dict(s.hyp)
    hyp["multiline_copy"] = not inplace
    fj = frame_json(nf)
    e1 = {"op": "ar", "c": "*", "l": {"op": "field", "nest": nest_name, "name": f}, "r": {"op": "const", "v": k1}}
    # expected through the model, line by line (in place)
    m = ctx.driver.call("frame.evalAssign", frame=fj, expr=e1, nest=nest_name, field=first)["model"]

    def run():
        if inplace:
            nf2 = nf.copy()
            nf2.eval(prog, inplace=True)
            return nf2
        return nf.eval(prog)

    def check():
        r = run()
        a = pa.array(r[f"{N}.{first}"]).to_pylist()
        b = pa.array(r[f"{N}.r"]).to_pylist()
        src = pa.array(nf[f"{N}.{f}"]).to_pylist()
        ok1 = all((x is None and y is None) or (x is not None and y is not None and (x != x or x == y * k1)) for x, y in zip(a, src))
        ok2 = all((x is None and y is None) or (x is not None and y is not None and (x != x or x == y + k2)) for x, y in zip(b, a))
        ok3 = True
        if f"{N}.t" in prog:
            t = pa.array(r[f"{N}.t"]).to_pylist()
            ok3 = all((x is None) or (x != x) or x == k2 for x in t)
        return {"line1": ok1, "line2_sees_line1": ok2, "line3": ok3, "len": len(b) == len(src)}
    real = call_real(check)
    ctx.case("eval.multiline", {**s.desc(), "labels": labels, "program": prog, "inplace": inplace}, real, None,
             {"ok": {"line1": True, "line2_sees_line1": True, "line3": True, "len": True}}, hyp=hyp,
             features=s.features + (f"inplace={inplace}", f"overwrite={overwrite}", f"nest={nest_name}"), nontrivial=s.nontrivial())


# ---- C09 nesting --------------------------------------------------------------------------------

def rand_flat_for(ctx, base_labels, n=None, kind=None):
    """a flat table whose labels partly overlap the base labels, unsorted, repeated"""
    rng = ctx.rng
    n = n if n is not None else rng.choice([0, 1, 3, 5, 8, 12])
    pool = list(dict.fromkeys(base_labels))
    top = max([x for x in pool if isinstance(x, int)] + [0])
    if top >= 2**62:
        top = max([x for x in pool if isinstance(x, int) and x < 2**61] + [0])     # stay inside int64
    extra = [(top + 1 + i) if (not pool or isinstance(pool[0], int)) else f"zz{i}" for i in range(2)]
    extra = [x for x in extra if x not in pool] or extra
    mode = rng.choice(["overlap", "overlap", "subset", "disjoint"])
    src = pool + extra if mode == "overlap" else (pool if mode == "subset" and pool else extra)
    labels = [rng.choice(src) for _ in range(n)] if src else []
    if rng.random() < 0.25:
        labels.sort(key=str)
    if rng.random() < 0.15:
        labels.sort(key=str, reverse=True)
    ty = gen.rand_ty(rng, nfields=rng.randint(1, 3))
    ty = [[f"f{i}", t] for i, (_, t) in enumerate(ty)]
    cols = [[nm, t, [gen.rand_cell(rng, t) for _ in range(len(labels))]] for nm, t in ty]
    return {"index": labels, "cols": cols}


def flat_df(flat, index_name=None):
    d = {nm: pd.Series(gen.flat_array(cells, t), dtype=pd.ArrowDtype(TYPES[t])) for nm, t, cells in flat["cols"]}
    df = pd.DataFrame(d)
    kind = int if (flat["index"] and isinstance(flat["index"][0], int)) else None
    df.index = pd.Index(flat["index"], dtype="int64" if (kind or not flat["index"]) else object, name=index_name)
    return df


def mk_base(ctx, n=None, pattern=None, kind=None):
    rng = ctx.rng
    n = n if n is not None else rng.choice([0, 1, 2, 3, 4, 6])
    labels = gen.rand_labels(rng, n, kind=kind, pattern=pattern)
    nf = NestedFrame({"id": np.arange(n, dtype=np.int64), "x": np.array([i * 0.5 for i in range(n)])},
                     index=pd.Index(labels, dtype="int64" if (n == 0 or isinstance(labels[0], int)) else object))
    return nf, labels


def case_add_nested(ctx):
    rng = ctx.rng
    kind = rng.choice(["int", "str"])
    # every fifth frame: 64-bit identifiers over the whole int64 range (neighbours closer than float64 resolution)
    extreme = rng.random() < 0.2
    nf, labels = mk_base(ctx, kind="int" if extreme else kind, pattern="extreme" if extreme else None,
                         n=rng.choice([2, 3, 4, 6]) if extreme else None)
    flat = rand_flat_for(ctx, labels)
    if flat["index"] and labels and type(flat["index"][0]) is not type(labels[0]):
        return
    how = rng.choice(["left", "left", "right", "inner", "outer"])
    df = flat_df(flat)
    with_prev = rng.random() < 0.4
    if with_prev:
        # the frame already holds a nested column, stored BEFORE another base column (one join indexer serves all blocks)
        prev = Subject(ctx, nrows=len(labels), allow_hidden=False)
        nf["prev"] = pd.Series(prev.fresh_ext(), index=nf.index, name="prev")
        nf["y"] = np.arange(len(labels), dtype=np.float64) + 100.0
        if rng.random() < 0.5:
            prev2 = Subject(ctx, nrows=len(labels), allow_hidden=False)
            nf["prev2"] = pd.Series(prev2.fresh_ext(), index=nf.index, name="prev2")
    before = frame_view(nf)
    fbefore = export.flat_df_view(df)
    real = call_real(lambda: frame_view(nf.add_nested(df, "n", how=how)))
    ans = ctx.driver.call("frame.addNested", frame=frame_json(nf), flat=flat, name="n", how=how)
    model = norm_frame(ans["model"])
    # joins other than left may turn the int base column into floats with NaN: compare values weakly
    if how != "left":
        real, model = relax_base(real), relax_base(model)
    if how == "outer":
        # pandas sorts the union of the keys with an unstable sort: the order among base rows that share a
        # label is pandas' business (the property defers to pandas for this join kind)
        real, model = canon_equal_labels(real), canon_equal_labels(model)
    dup = len(set(map(str, labels))) < len(labels)
    spec_ok = None
    if how in ("right", "outer") and "ok" in real:
        # a row that exists only in the flat table has NO value in any column the frame had before
        base_labels = {export.label(l) if not isinstance(l, str) else l for l in labels}
        base_labels |= set(map(str, labels))
        bad = []
        for pos, lab in enumerate(real["ok"]["index"]):
            if lab in base_labels or str(lab) in base_labels:
                continue
            for c in real["ok"]["cols"]:
                if c[0] == "n":
                    continue
                v = c[2]["rows"][pos] if c[1] == "nest" else c[3][pos]
                if not (v is None or v == "nan" or (isinstance(v, float) and v != v)):
                    bad.append([lab, c[0], v])
        spec_ok = not bad
    ctx.case(f"add_nested.{how}", {"labels": labels, "flat": flat, "how": how}, real, model,
             norm_frame(ans["spec"]) if how == "left" else None, spec_ok=spec_ok,
             features=(how, kind, f"dup_base={dup}", f"nflat={min(len(flat['index']), 9)}", f"prev={with_prev}"),
             nontrivial=len(flat["index"]) > 0 and len(labels) > 0)
    if frame_view(nf) != before or export.flat_df_view(df) != fbefore:
        ctx.case("add_nested.inputs_unchanged", {"labels": labels, "flat": flat}, {"ok": False}, None, {"ok": True})


def canon_equal_labels(j):
    """order rows that share a label by their base values (used where pandas leaves that order open)"""
    if j is None or "err" in j:
        return j
    f = j["ok"]
    n = len(f["index"])
    idc = next((c for c in f["cols"] if c[0] == "id"), None)
    key = [(str(f["index"][i]), (idc[3][i] if idc and idc[3][i] is not None else 1e18)) for i in range(n)]
    # stable within runs of equal labels only
    order = list(range(n))
    i = 0
    while i < n:
        k = i
        while k < n and f["index"][k] == f["index"][i]:
            k += 1
        order[i:k] = sorted(order[i:k], key=lambda r: key[r][1])
        i = k
    cols = []
    for c in f["cols"]:
        if c[1] == "nest":
            cols.append([c[0], "nest", {"ty": c[2]["ty"], "rows": [c[2]["rows"][r] for r in order]}])
        else:
            cols.append([c[0], "base", c[2], [c[3][r] for r in order]])
    return {"ok": {**f, "index": [f["index"][r] for r in order], "cols": cols}}


def relax_base(j):
    if j is None or "err" in j:
        return j
    f = j["ok"]
    cols = []
    for c in f["cols"]:
        if c[1] == "base":
            vals = []
            for v in c[3]:
                if isinstance(v, dict) and "f" in v:
                    v = v["f"] / 2.0
                vals.append(None if v is None else float(v))
            cols.append([c[0], "base", "num", vals])
        else:
            cols.append(c)
    return {"ok": {**f, "cols": cols}}


def case_add_nested_on(ctx):
    """join on a column: every base row gets the records whose key equals the row's key"""
    rng = ctx.rng
    n = rng.choice([1, 2, 3, 5])
    keys = [rng.randint(0, 3) for _ in range(n)]
    flat = rand_flat_for(ctx, keys)
    flat["index"] = [int(k) if isinstance(k, int) else 99 for k in flat["index"]]
    # the base frame's own index is irrelevant to a join on a column — also when it happens to look like the keys
    index_kind = rng.choice(["str", "range", "flat_keys", "flat_keys"])
    uniq = sorted(set(flat["index"]))
    if index_kind == "flat_keys" and uniq:
        n = len(uniq)
        keys = [rng.choice(uniq + [7]) for _ in range(n)] if rng.random() < 0.5 else rng.sample(uniq, n)
        index = pd.Index(uniq)
    elif index_kind == "range":
        index = pd.RangeIndex(n)
    else:
        index = pd.Index(gen.rand_labels(rng, n, kind="str"))
    nf = NestedFrame({"id": np.arange(n, dtype=np.int64), "key": np.array(keys, dtype=np.int64)}, index=index)
    df = flat_df(flat).reset_index(names="key")
    kw = {}
    with_dtype = len(flat["cols"]) > 1 and rng.random() < 0.4
    if with_dtype:
        # an explicit dtype that names the table's columns in ANOTHER order, each with its own element type:
        # a dtype names its fields — every field must still hold the values of the column of that name
        perm = list(flat["cols"])
        rng.shuffle(perm)
        kw["dtype"] = NestedDtype.from_fields({nm: TYPES[t] for nm, t, _ in perm})

    def by_name(v):
        if "ok" in v:
            for c in v["ok"]["cols"]:
                if c[0] == "n" and c[1] == "nest":
                    c[2]["ty"] = sorted(c[2]["ty"])
                    c[2]["rows"] = [None if r is None else sorted(r, key=lambda f: f[0]) for r in c[2]["rows"]]
        return v
    real = call_real(lambda: frame_view(nf.add_nested(df, "n", on="key", **kw)))
    rows = []
    for k in keys:
        pos = [i for i, l in enumerate(flat["index"]) if l == k]
        rows.append([[nm, [weak(cells[i]) for i in pos]] for nm, t, cells in flat["cols"]] if pos else None)
    before = frame_view(nf)
    exp = {"index": before["index"], "cls": "NestedFrame", "cols": before["cols"] + [
        ["n", "nest", {"ty": [[nm, t] for nm, t, _ in flat["cols"]], "rows": rows}]]}
    if with_dtype:
        real, exp = by_name(real), by_name({"ok": exp})["ok"]
    ctx.case("add_nested.on_column", {"keys": keys, "flat": flat, "index": index_kind, "dtype": str(kw.get("dtype"))}, real, None, {"ok": exp},
             features=("on", f"index={index_kind}", f"dtype_permuted={with_dtype}"), nontrivial=len(flat["index"]) > 0)


def case_from_flat(ctx):
    rng = ctx.rng
    n = rng.choice([1, 2, 4, 7, 10, 25])
    kind = rng.choice(["int", "str"])
    labels = gen.rand_labels(rng, n, kind=kind, pattern=rng.choice(["dup_unsorted", "dup_sorted", "unique_unsorted", "desc_dups", "extreme"]))
    if isinstance(labels[0], int):
        kind = "int"
    bvals = [rng.randint(0, 9) for _ in range(n)]
    bnan = [None if rng.random() < 0.25 else rng.randint(0, 9) / 2.0 for _ in range(n)]
    flat = rand_flat_for(ctx, labels, n=n)
    flat["index"] = labels
    df = flat_df(flat)
    df.insert(0, "b0", np.array(bvals, dtype=np.int64))
    df.insert(1, "b1", np.array([float("nan") if v is None else v for v in bnan], dtype=np.float64))
    use_on = rng.random() < 0.3
    nested_cols = [c[0] for c in flat["cols"]]
    explicit = rng.random() < 0.5

    # the caller's table is nested TWICE: the second nesting sees the table the first one left behind
    d2 = df.reset_index(names="k") if use_on else NestedFrame(df)
    before = {"columns": [str(c) for c in d2.columns], "index": export.labels(d2.index)}
    kw = {"base_columns": ["b0", "b1"], "nested_columns": nested_cols if explicit else None, "name": "n"}
    if use_on:
        kw["on"] = "k"

    def run():
        NestedFrame.from_flat(d2, **kw)
        return frame_view(NestedFrame.from_flat(d2, **kw))
    real = call_real(run)
    ans = ctx.driver.call("frame.fromFlat", index=labels,
                          base=[["b0", "int64", bvals], ["b1", "double", ["nan" if v is None else {"f": int(2 * v)} for v in bnan]]],
                          nested=flat["cols"], name="n")
    # spec: one base row per label (first occurrence, first-occurrence order), all records of the label nested
    first = {}
    for i, l in enumerate(labels):
        first.setdefault(l, i)
    order = list(first)
    rows = []
    for l in order:
        pos = [i for i in range(n) if labels[i] == l]
        rows.append([[nm, [weak(cells[i]) for i in pos]] for nm, t, cells in flat["cols"]])
    exp = {"index": [export.label(l) for l in order], "cls": "NestedFrame", "cols": [
        ["b0", "base", "int64", [bvals[first[l]] for l in order]],
        ["b1", "base", "double", [None if bnan[first[l]] is None else {"f": int(2 * bnan[first[l]])} for l in order]],
        ["n", "nest", {"ty": [[nm, t] for nm, t, _ in flat["cols"]], "rows": rows}]]}
    ctx.case("from_flat", {"labels": labels, "flat": flat, "b0": bvals, "b1": bnan, "on": use_on}, real, norm_frame(ans["model"]),
             {"ok": exp}, features=(kind, f"on={use_on}", f"n={'>16' if n > 16 else n}"), nontrivial=True)
    after = {"columns": [str(c) for c in d2.columns], "index": export.labels(d2.index)}
    ctx.case("from_flat.argument_unchanged", {"labels": labels, "on": use_on}, {"ok": after}, None, {"ok": before},
             features=(kind, f"on={use_on}"), nontrivial=True)


def case_from_lists(ctx, s: Subject):
    """packing list-valued columns nests each row's own lists positionally, one output row per input row"""
    rng = ctx.rng
    rows = s.content["rows"]
    if any(r is None for r in rows) or not rows:
        return
    n = len(rows)
    labels = gen.rand_labels(rng, n)
    d = {"id": np.arange(n, dtype=np.int64)}
    chunked = rng.random() < 0.5
    for i, (nm, t) in enumerate(s.ty):
        la = gen.mk_list_array([dict(map(tuple, r))[nm] for r in rows], t)
        if chunked:
            # every column in its own chunking: same number of chunks or not, other boundaries, empty chunks
            k = rng.randint(2, 3)
            cuts = sorted(rng.randint(0, n) for _ in range(k - 1))
            bounds = [0] + cuts + [n]
            la = pa.chunked_array([la.slice(a, b - a) for a, b in zip(bounds, bounds[1:])], type=la.type)
        d[nm] = pd.Series(la, dtype=pd.ArrowDtype(la.type))
    which = rng.choice(["from_lists", "nest_lists"])
    # `from_lists` takes "pd.DataFrame or NestedFrame": a plain DataFrame every other time
    plain = which == "from_lists" and rng.random() < 0.5
    df = pd.DataFrame(d) if plain else NestedFrame(d)
    df.index = pd.Index(labels)
    names = [nm for nm, _ in s.ty]
    # the name of the new column: any legal column name, also ones pandas uses as parameter or index names
    nname = rng.choice(["n", "n", "self", "index", "my nest", "data", "base"])

    def run():
        if which == "from_lists":
            return frame_view(NestedFrame.from_lists(df, base_columns=["id"], list_columns=names, name=nname))
        return frame_view(df.nest_lists(nname, names))
    real = call_real(run)
    exp = {"index": [export.label(l) for l in labels], "cls": "NestedFrame", "cols": [
        ["id", "base", "int64", list(range(n))], [nname, "nest", {"ty": s.ty, "rows": weak_rows(rows)}]]}
    # the model packs the physical list arrays (every column in its own chunking) as `pack_lists` does
    lists_json = []
    for nm, t in s.ty:
        col = pa.chunked_array(df[nm].array._pa_array) if not isinstance(df[nm].array._pa_array, pa.ChunkedArray) else df[nm].array._pa_array
        lists_json.append([nm, t, [export.export_list(ch, t) for ch in col.iterchunks()]])
    ans = ctx.driver.call("frame.fromLists", index=labels, base=[["id", "int64", list(range(n))]], lists=lists_json, name=nname)
    ctx.case(which, {**s.desc(), "labels": labels, "chunked": chunked, "name": nname}, real, norm_frame(ans["model"]), {"ok": exp}, hyp=s.hyp,
             features=(which, f"dup={len(set(map(str, labels))) < n}", f"chunked={chunked}", f"plain={plain}"),
             nontrivial=s.nontrivial())


def case_from_lists_empty(ctx):
    """from_lists on a frame with zero rows (the special-cased branch of the implementation)"""
    rng = ctx.rng
    t = rng.choice(["int64", "double", "string"])
    df = NestedFrame({"id": np.array([], dtype=np.int64), "l": pd.Series([], dtype=pd.ArrowDtype(pa.list_(TYPES[t])))})
    with_base = rng.random() < 0.5

    def run():
        r = NestedFrame.from_lists(df, base_columns=["id"] if with_base else None, list_columns=["l"], name="n")
        return {"cls": type(r).__name__, "len": len(r), "ty": export.dtype_ty(r["n"].dtype)}
    real = call_real(run)
    ctx.case("from_lists.empty", {"ty": t, "with_base": with_base}, real, None, {"ok": {"cls": "NestedFrame", "len": 0, "ty": [["l", t]]}},
             hyp={"empty_frame": True}, features=("empty", f"base={with_base}"), mode="empty")


def case_new_nest_setitem(ctx):
    """frame['new_nest.field'] = flat series"""
    rng = ctx.rng
    kind = rng.choice(["int", "str"])
    nf, labels = mk_base(ctx, kind=kind)
    flat = rand_flat_for(ctx, labels)
    if flat["index"] and labels and type(flat["index"][0]) is not type(labels[0]):
        return
    flat["cols"] = flat["cols"][:1]
    nm, t, cells = flat["cols"][0]
    ser = flat_df(flat)[nm]
    ser.name = "orig_name"

    def run():
        nf2 = nf.copy()
        nf2[f"fresh.{nm}"] = ser
        assert ser.name == "orig_name", "the caller's series was renamed"
        return frame_view(nf2)
    real = call_real(run)
    ans = ctx.driver.call("frame.setField", frame=frame_json(nf), nest="fresh", field=nm, ty=t, value={"array": cells},
                          valueIndex=flat["index"])
    sp = ctx.driver.call("frame.addNested", frame=frame_json(nf), flat=flat, name="fresh", how="left")["spec"]
    ctx.case("setitem.new_nest", {"labels": labels, "flat": flat}, real, norm_frame(ans["model"]), norm_frame(sp),
             features=(kind,), nontrivial=len(cells) > 0 and len(labels) > 0)


# ---- C10 reduce / count_nested ------------------------------------------------------------------

def case_reduce(ctx, s: Subject):
    from .ops_meta import npval
    rng = ctx.rng
    shape = rng.choice(["scalar", "tuple", "dict", "dotted", "dotted2"])
    own_labels = None
    if shape in ("dict", "dotted") and rng.random() < 0.25:
        # row labels that are also the names of the outputs of the function (labels are data, not column names)
        own_labels = [rng.choice(["row", "count"] if shape == "dict" else ["row"]) for _ in s.content["rows"]]
    nf, labels, other = mk_nf(ctx, s, with_other=False, labels=own_labels)
    rows = s.content["rows"]
    names = [n for n, _ in s.ty]
    cols = []
    for _ in range(rng.randint(1, 4)):
        if rng.random() < 0.35:
            cols.append((None, rng.choice(["id", "x"])))
        else:
            cols.append(("nest", rng.choice(names)))
    args = [c if l is None else f"{l}.{c}" for l, c in cols]
    # extra positional arguments start at the first argument that is not a column; whatever follows is passed on
    # verbatim — also a string that happens to spell a column or a field path
    extra = rng.choice([(), (7,), (7, "k"), (7, "id"), (2.5, f"nest.{names[0]}"), ("k", "x"), (7, "x", "k"), (None, "id")])
    kwargs = rng.choice([{}, {"scale": 2}])
    # the name of the output nest: any legal column name, also ones pandas uses as parameter or index names
    out = rng.choice(["out", "out", "self", "index", "my out", "class", "base", "data"])
    log = []

    def fun(*a, **kw):
        log.append({"args": [npval(x) if isinstance(x, np.ndarray) else repr_scalar(x) for x in a], "kw": dict(kw)})
        i = len(log) - 1
        first_arr = next((x for x in a if isinstance(x, np.ndarray) and x.ndim == 1), None)
        k = 0 if first_arr is None else len(first_arr)
        if shape == "scalar":
            return i * 10 + k
        if shape == "tuple":
            return (i, k)
        if shape == "dict":
            return {"row": i, "count": k}
        if shape == "dotted2":
            # two output nests whose keys are interleaved (and a scalar in between)
            return {"out.v": np.arange(k, dtype=np.int64) + i, "res.u": np.arange(k, dtype=np.int64) * 2, "row": i,
                    "out.w": np.full(k, float(i))}
        return {"row": i, f"{out}.v": np.arange(k, dtype=np.int64) + i, f"{out}.w": np.full(k, float(i))}
    res = call_real(lambda: frame_view(nf.reduce(fun, *args, *extra, **kwargs)))
    # expected call log from the content
    tymap = dict(map(tuple, s.ty))
    ans = ctx.driver.call("frame.reduceCalls", frame=frame_json(nf), cols=[[l, c] for l, c in cols])
    exp_log = []
    n = len(rows)
    for i in range(n):
        a = []
        for l, c in cols:
            if l is None:
                a.append(repr_scalar(nf[c].iloc[i]))
            else:
                a.append(None if rows[i] is None else [weak(v) for v in dict(map(tuple, rows[i]))[c]])
        exp_log.append(a)
    got_log = []
    for ent in log:
        a = []
        for x, (l, c) in zip(ent["args"], cols):
            if l is None:
                a.append(x)
            else:
                a.append(cells_of_npval(x, tymap[c]))
        got_log.append({"cols": a, "extra": ent["args"][len(cols):], "kw": ent["kw"]})
    ok_calls = (len(got_log) == n and all(
        g["extra"] == [repr_scalar(e) for e in extra] and g["kw"] == kwargs and all(
            (e is None) or (e == x) for e, x in zip(ex, g["cols"]))   # missing rows: unconstrained by the statement
        for g, ex in zip(got_log, exp_log)))
    # result
    spec_ok = False
    if "ok" in res and ok_calls and n == 0:
        spec_ok = res["ok"]["index"] == [] and res["ok"]["cls"] == "NestedFrame"
    elif "ok" in res and ok_calls:
        r = res["ok"]
        lens = [0 if rw is None else len(rw[0][1]) for rw in rows]
        firsts = [next((lens[i] if rows[i] is not None else 0 for l, c in cols if l is not None), 0) for i in range(n)]
        # rows whose nested value is missing hand a 0-d array to the function: k = 0
        k = firsts
        colmap = {c[0]: c for c in r["cols"]}
        if shape == "scalar":
            spec_ok = [c[3] for c in r["cols"]] == [[i * 10 + k[i] for i in range(n)]]
        elif shape == "tuple":
            spec_ok = [c[3] for c in r["cols"]] == [list(range(n)), k]
        elif shape == "dict":
            spec_ok = list(colmap) == ["row", "count"] and colmap["row"][3] == list(range(n)) and colmap["count"][3] == k
        elif shape == "dotted2":
            exp_out = [[["v", [j + i for j in range(k[i])]], ["w", [{"f": 2 * i}] * k[i]]] for i in range(n)]
            exp_res = [[["u", [2 * j for j in range(k[i])]]] for i in range(n)]
            spec_ok = (sorted(colmap) == ["out", "res", "row"] and colmap["row"][3] == list(range(n))
                       and colmap["out"][1] == "nest" and colmap["res"][1] == "nest"
                       and [[sorted(map(tuple, map(lambda p: (p[0], tuple(map(str, p[1]))), r))) for r in [rw]] for rw in colmap["out"][2]["rows"]]
                       == [[sorted(map(tuple, map(lambda p: (p[0], tuple(map(str, p[1]))), r))) for r in [rw]] for rw in exp_out]
                       and colmap["res"][2]["rows"] == exp_res)
        else:
            exp_rows = [[["v", [j + i for j in range(k[i])]], ["w", [{"f": 2 * i}] * k[i]]] for i in range(n)]
            spec_ok = (list(colmap) == ["row", out] and colmap["row"][3] == list(range(n))
                       and colmap[out][1] == "nest" and colmap[out][2]["rows"] == exp_rows)
        spec_ok = bool(spec_ok and r["index"] == [export.label(l) for l in labels] and r["cls"] == "NestedFrame")
    m = ans["model"]
    model_log = None
    if "ok" in m:
        model_log = [[(x["scalar"] if "scalar" in x else (None if x["array"] is None else [weak(v) for v in x["array"]])) for x in call] for call in m["ok"]]
        real_log = [[(g if l is None else g) for g, (l, c) in zip(gl["cols"], cols)] for gl in got_log]
        # scalars: compare through repr
        model_log = [[(repr_cell(x) if l is None else x) for x, (l, c) in zip(call, cols)] for call in model_log]
        agree = model_log == [[(x if l is None else x) for x, (l, c) in zip(gl["cols"], cols)] for gl in got_log]
    else:
        agree = "err" in res
    ctx.case("reduce", {**s.desc(), "labels": labels, "args": args, "extra": list(extra), "kwargs": kwargs, "shape": shape, "out": out},
             {"calls": got_log, "res": res if "err" in res else "ok"}, None, None, hyp=s.hyp,
             features=s.features + (shape, f"ncols={len(cols)}", f"dup={len(set(map(str, labels))) < n}", f"labels_are_outputs={own_labels is not None}"),
             spec_ok=bool(spec_ok), nontrivial=s.nontrivial(), extra={"expected_calls": exp_log})
    if not agree:
        ctx.case("reduce.calls_vs_model", {**s.desc(), "args": args}, {"ok": got_log}, {"ok": model_log}, None, hyp=s.hyp)


def normkey(k):
    """n_nest_3.0 (a per-row table with a null holds floats) and n_nest_3 name the same value"""
    head, _, v = k.rpartition("_")
    try:
        f = float(v)
        if f == int(f):
            return f"{head}_{int(f)}"
    except ValueError:
        pass
    return k


def repr_scalar(x):
    if isinstance(x, (np.integer, int)) and not isinstance(x, bool):
        return int(x)
    if isinstance(x, (np.floating, float)):
        return {"f": int(2 * float(x))}
    return str(x)


def repr_cell(c):
    return c


def cells_of_npval(x, t):
    """numpy array handed to the callback -> weak cells (None for a 0-d/None array); an argument that
    cannot be read as values of the field's type (another column's values arrived in its place) is
    returned as a marker that equals no expectation"""
    try:
        return _cells_of_npval(x, t)
    except (ValueError, TypeError, KeyError):
        return {"not_values_of_type": t, "got": repr(x)[:200]}


def _cells_of_npval(x, t):
    if x is None:
        return None
    if not isinstance(x, dict) or ("vals" not in x and "scalar" not in x):
        return {"not_an_array": repr(x)}      # a base cell where a field's list was due: never equal to the expectation
    if "scalar" in x:
        return None
    out = []
    for v in x["vals"]:
        if v is None or (v in ("NaT", "nan") and t != "string"):
            out.append(None)
        elif t == "int64":
            out.append(int(float(v)))
        elif t == "double":
            out.append({"f": int(2 * float(v))})
        elif t == "bool":
            out.append(v == "True")
        elif t == "string":
            out.append({"s": v})
        else:
            try:
                out.append({"t": int(v)})
            except ValueError:
                out.append({"t": int(pd.Timestamp(v).value)})
    return out


def case_count_nested(ctx, s: Subject):
    from nested_pandas.utils import count_nested
    rng = ctx.rng
    nf, labels, other = mk_nf(ctx, s, with_other=False)
    rows = s.content["rows"]
    n = len(rows)
    lens = [0 if r is None else len(r[0][1]) for r in rows]
    join = rng.random() < 0.5
    hyp = dict(s.hyp)
    hyp["empty_frame"] = n == 0
    real = call_real(lambda: (lambda r: {"index": export.labels(r.index), "n": [int(v) for v in r["n_nest"]],
                                         "cols": list(r.columns), "cls": type(r).__name__})(count_nested(nf, "nest", join=join)))
    exp_cols = (list(nf.columns) + ["n_nest"]) if join else ["n_nest"]
    # the model's counts (`NArr.countRecords`: the first field's lists of the list view, as utils.count_nested reads them)
    model = None
    if n > 0:
        mc = ctx.driver.call("observers", col=export.export_ext(nf["nest"].array))["model"].get("countRecords")
        if isinstance(mc, dict) and "ok" in mc:
            model = {"ok": {"index": [export.label(l) for l in labels], "n": mc["ok"], "cols": exp_cols, "cls": "NestedFrame"}}
    ctx.case("count_nested", {**s.desc(), "labels": labels, "join": join}, real, model,
             {"ok": {"index": [export.label(l) for l in labels], "n": lens, "cols": exp_cols, "cls": "NestedFrame"}}, hyp=hyp,
             features=s.features + (f"join={join}",), nontrivial=s.nontrivial(), mode="empty" if n == 0 else "spec")
    byf = next((nm for nm, t in s.ty if t in ("int64", "string", "bool")), None)
    if byf is None or n == 0:
        return

    def by_run():
        r = count_nested(nf, "nest", by=byf, join=join)
        out = {}
        for c in r.columns:
            if str(c).startswith("n_nest_"):
                out[normkey(str(c))] = [0 if v != v else int(v) for v in r[c].tolist()]
        return {"index": export.labels(r.index), "counts": out, "nrows": len(r)}
    real = call_real(by_run)
    exp = {}
    for i, r in enumerate(rows):
        if r is None:
            continue
        for v in dict(map(tuple, r))[byf]:
            if v is None:
                continue
            key = "n_nest_" + (str(v["s"]) if isinstance(v, dict) else str(v))
            exp.setdefault(key, [0] * n)[i] += 1
    ok = "ok" in real and real["ok"]["nrows"] == n and real["ok"]["index"] == [export.label(l) for l in labels] and \
        {k: v for k, v in real["ok"]["counts"].items() if any(v)} == {k: v for k, v in exp.items() if any(v)}
    ctx.case("count_nested.by", {**s.desc(), "labels": labels, "by": byf, "join": join}, real, None, {"ok": exp}, hyp=s.hyp,
             features=s.features + ("by",), spec_ok=ok, nontrivial=s.nontrivial())


def case_reduce_after_inplace_field(ctx, s: Subject):
    """a field added IN PLACE to the live array of a frame's nested column (after the frame's dtypes and column
    listing were looked at) is a column reduce recognises: the function gets each row's own list of it"""
    from .ops_meta import npval
    rng = ctx.rng
    if s.hyp.get("hidden"):
        return
    nf, labels, _ = mk_nf(ctx, s, with_other=False, history=False)
    rows = s.content["rows"]
    lens = [0 if r is None else (len(r[0][1]) if r else 0) for r in rows]
    total = sum(lens)
    _ = nf.dtypes, nf.nested_columns, nf.all_columns, repr(nf)      # what a user does before
    vals = [1000 + k for k in range(total)]
    how = rng.choice(["flat", "list", "frame_setitem", "frame_setitem"])
    if how == "frame_setitem" and lens != [1] * len(lens) and nf["nest"].nest.get_flat_index().equals(nf.index):
        how = "flat"     # repeated labels that make the records' labels spell the frame's index: K5 (a C06 finding)
    log = []

    def fun(*a):
        log.append([npval(x) if isinstance(x, np.ndarray) else repr_scalar(x) for x in a])
        return len(log)

    def run():
        arr = nf["nest"].array
        if how == "frame_setitem":
            # computed element by element from the flat view of the nest (one value per record, labelled like the records)
            nf["nest.zz_new"] = pd.Series(np.array(vals, dtype=np.int64), index=nf["nest"].nest.get_flat_index())
        elif how == "flat":
            arr.set_flat_field("zz_new", np.array(vals, dtype=np.int64))
        else:
            ls, k = [], 0
            for ln in lens:
                ls.append(vals[k:k + ln])
                k += ln
            arr.set_list_field("zz_new", pa.array(ls, type=pa.list_(pa.int64())))
        args = rng.choice([("id", "nest.zz_new"), ("nest.zz_new",), ("nest.zz_new", "x")])
        nf.reduce(fun, *args)
        return {"args": list(args), "lists": [[e for e in call if isinstance(e, dict) or isinstance(e, list)] for call in log],
                "nargs": sorted({len(call) for call in log})}
    real = call_real(run)
    exp_lists, k = [], 0
    for ln in lens:
        exp_lists.append(vals[k:k + ln])
        k += ln
    ok = False
    if "ok" in real:
        r = real["ok"]
        got = []
        for call in log:
            j = r["args"].index("nest.zz_new")
            got.append(cells_of_npval(call[j], "int64") if j < len(call) and isinstance(call[j], dict) else "not-a-list")
        ok = (r["nargs"] in ([len(r["args"])], []) and len(log) == len(rows)
              and all(rows[i] is None or got[i] == exp_lists[i] for i in range(len(rows))))
    ctx.case("reduce.after_inplace_field", {**s.desc(), "how": how, "vals": vals}, real, None, None, hyp=s.hyp,
             features=s.features + ("inplace_field", how), spec_ok=ok, nontrivial=total > 0)
