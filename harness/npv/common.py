"""Shared plumbing: import the library from /repo/src (checked), cell encoding, canonical forms."""
import math
import os
import sys
import warnings

REPO = os.environ.get("NPV_REPO", "/repo")
VERIF = os.path.dirname(os.path.dirname(os.path.dirname(os.path.abspath(__file__))))
sys.path.insert(0, os.path.join(REPO, "src"))
warnings.filterwarnings("ignore")

import numpy as np  # noqa: E402
import pandas as pd  # noqa: E402
import pyarrow as pa  # noqa: E402

import nested_pandas  # noqa: E402

if not os.path.abspath(nested_pandas.__file__).startswith(os.path.abspath(os.path.join(REPO, "src"))):
    print(f"FRAMEWORK-ERROR nested_pandas imported from {nested_pandas.__file__}, not {REPO}/src")
    sys.exit(2)

from nested_pandas import NestedDtype, NestedFrame  # noqa: E402,F401
from nested_pandas.series.ext_array import NestedExtensionArray  # noqa: E402,F401

TYPES = {
    "int64": pa.int64(),
    "double": pa.float64(),
    "string": pa.string(),
    "bool": pa.bool_(),
    "timestamp[ns]": pa.timestamp("ns"),
}


class Ungenerated(Exception):
    """A value outside the exact grid the model can carry (e.g. a non-half-integer float)."""


def enc_cell(v, ty):
    """Python value (from to_pylist of an Arrow array of type `ty`) -> protocol cell."""
    if v is None:
        return None
    if ty == "int64":
        return int(v)
    if ty == "double":
        if isinstance(v, float) and math.isnan(v):
            return "nan"
        t = 2 * float(v)
        if t != int(t) or abs(t) > 2**52:
            raise Ungenerated(f"float {v} is not a half-integer")
        return {"f": int(t)}
    if ty in ("string", "large_string"):
        return {"s": str(v)}
    if ty == "bool":
        return bool(v)
    if ty.startswith("timestamp"):
        return {"t": int(v)}
    raise Ungenerated(f"type {ty}")


def dec_cell(c, ty):
    """protocol cell -> Python value usable to build an Arrow array of type `ty`."""
    if c is None:
        return None
    if c == "nan":
        return float("nan")
    if isinstance(c, dict):
        if "f" in c:
            return c["f"] / 2.0
        if "s" in c:
            return c["s"]
        if "t" in c:
            return c["t"]
    return c


def arrow_values_to_cells(arr, ty):
    """Cells of a flat Arrow array (Array or ChunkedArray) whose value type renders as `ty`."""
    if isinstance(arr, pa.ChunkedArray):
        arr = arr.combine_chunks() if arr.num_chunks != 1 else arr.chunk(0)
    if ty.startswith("timestamp"):
        arr = arr.cast(pa.int64())
    return [enc_cell(v, ty) for v in arr.to_pylist()]


def tystr(pa_type):
    return str(pa_type)


def is_null_like(v):
    if v is None or v is pd.NA or v is pd.NaT:
        return True
    if isinstance(v, float) and math.isnan(v):
        return True
    try:
        if isinstance(v, (np.floating,)) and np.isnan(v):
            return True
        if isinstance(v, np.datetime64) and np.isnat(v):
            return True
    except Exception:
        pass
    return False


def enc_elem(v, ty):
    """A value as it appears in the element view (per-row DataFrame; numpy semantics: null == NaN)."""
    if is_null_like(v):
        return None
    if ty == "int64":
        return int(v)
    if ty == "double":
        t = 2 * float(v)
        if t != int(t):
            raise Ungenerated(f"float {v}")
        return {"f": int(t)}
    if ty in ("string", "large_string"):
        return {"s": str(v)}
    if ty == "bool":
        return bool(v)
    if ty.startswith("timestamp"):
        return {"t": int(pd.Timestamp(v).value)}
    raise Ungenerated(ty)


def weak(cell):
    """Element-view equality identifies NaN and null."""
    return None if cell == "nan" else cell


def weak_rows(rows):
    return [None if r is None else [[n, [weak(c) for c in cs]] for n, cs in r] for r in rows]
