"""npv — correspondence harness between the Lean model (/verif/lean/NPModel) and /repo."""
