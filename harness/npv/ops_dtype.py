"""C17: the nested dtype is a faithful, stable description of the column."""
import pickle

from . import gen, export
from .common import pa, pd, np, weak_rows, TYPES, NestedExtensionArray, NestedDtype, NestedFrame
from .runner import call_real
from .subject import Subject

NAME_POOL = ["a", "b", "flux", "t", "x y", "a,b", "n:m", "é", "class", "1st", "a-b", "a.b", "[q", "q]", "<z", "z>", "a b c",
             " lead", "trail ", "\tra", "in", "a;b", "a=b", "nested"]


def alias_catalogue():
    """every non-parametric alias pyarrow accepts: [(alias, canonical render)] — enumerated at run time"""
    cands = set()
    tbl = getattr(pa.lib, "_type_aliases", None)
    if isinstance(tbl, dict):
        cands.update(tbl.keys())
    for nm in ["null", "bool", "boolean", "i1", "int8", "i2", "int16", "i4", "int32", "i8", "int64", "u1", "uint8", "u2", "uint16",
               "u4", "uint32", "u8", "uint64", "f2", "halffloat", "float16", "f4", "float", "float32", "f8", "double", "float64",
               "string", "str", "utf8", "binary", "large_string", "large_str", "large_utf8", "large_binary", "binary_view",
               "string_view", "date32", "date64", "date32[day]", "date64[ms]", "time32[s]", "time32[ms]", "time64[us]", "time64[ns]",
               "timestamp[s]", "timestamp[ms]", "timestamp[us]", "timestamp[ns]", "duration[s]", "duration[ms]", "duration[us]",
               "duration[ns]", "month_day_nano_interval"]:
        cands.add(nm)
    out = []
    for a in sorted(cands):
        try:
            t = pa.type_for_alias(a)
        except Exception:
            continue
        out.append((a, str(t), t))
    return out


def parametric_types():
    return [pa.timestamp("ns", tz="UTC"), pa.timestamp("us", tz="Europe/Paris"), pa.decimal128(10, 2), pa.decimal256(40, 3),
            pa.binary(4), pa.list_(pa.int64()), pa.large_list(pa.float64()), pa.struct([("p", pa.int64()), ("q", pa.string())]),
            pa.map_(pa.string(), pa.int64()), pa.dictionary(pa.int32(), pa.string()), pa.list_(pa.int64(), 3)]


def fields_of(dtype):
    return [[n, str(t)] for n, t in dtype.fields.items()]


def parse_real(string):
    return fields_of(NestedDtype.construct_from_string(string))


def case_parse(ctx, string, aliases, expected=None, feats=(), dup=False):
    real = call_real(lambda: parse_real(string))
    ans = ctx.driver.call("dtype.parse", string=string, aliases=aliases)["model"]
    spec = None
    spec_ok = None
    if expected is not None:
        # parsing the name of a dtype: equal dtype, or (parametric) a TypeError — never another dtype
        if "ok" in real:
            spec_ok = real["ok"] == expected
        else:
            spec_ok = real.get("err") == "TypeError" and expected == "may_refuse"
        if expected != "may_refuse" and "err" in real:
            spec_ok = False
    hyp = {"dup_names": dup}
    ctx.case("dtype.parse", {"string": string}, real, ans, None, hyp=hyp, features=feats, spec_ok=spec_ok,
             nontrivial="ok" in real)
    if "err" in real and real["err"] != "TypeError":
        ctx.case("dtype.parse.error_class", {"string": string}, real, None, {"err": "TypeError"}, features=feats, spec_ok=False)



def case_pickle_other_process(ctx):
    """a dtype (alone, in an array, in a Series, in a frame) pickled by ANOTHER interpreter process — its own
    string-hash seed — is the same description here: equal to the dtype built here, the same hash, one set element"""
    import os, subprocess, sys
    from .common import REPO
    rng = ctx.rng
    fields = [["t", "timestamp[ns]"], ["flux", "double"], ["band", "string"], ["ok", "bool"], ["k", "int64"]]
    rng.shuffle(fields)
    fields = fields[:rng.randint(1, 4)]
    code = (
        "import pickle, sys, pyarrow as pa, pandas as pd\n"
        "from nested_pandas import NestedDtype, NestedFrame\n"
        "from nested_pandas.series.ext_array import NestedExtensionArray\n"
        f"fs = {fields!r}\n"
        "d = NestedDtype.from_fields({n: pa.type_for_alias(t) if not t.startswith('timestamp') else pa.timestamp('ns') for n, t in fs})\n"
        "arr = NestedExtensionArray(pa.array([{n: [] for n, _ in fs}], type=d.pyarrow_dtype))\n"
        "ser = pd.Series(arr, name='c')\n"
        "hash(d)\n"
        "sys.stdout.buffer.write(pickle.dumps({'dtype': d, 'array': arr, 'series': ser, 'frame': NestedFrame({'c': ser})}))\n")
    env = dict(os.environ, PYTHONPATH=os.path.join(REPO, "src"), PYTHONHASHSEED=str(rng.randint(1, 10 ** 6)))
    r = subprocess.run([sys.executable, "-W", "ignore", "-c", code], env=env, capture_output=True)
    if r.returncode != 0:
        ctx.case("dtype.pickle_other_process", {"fields": fields}, {"err": "writer failed", "msg": r.stderr.decode()[-300:]}, None,
                 {"ok": True}, features=("other_process",))
        return
    here = NestedDtype.from_fields({n: (pa.timestamp("ns") if t.startswith("timestamp") else pa.type_for_alias(t)) for n, t in fields})

    def probe():
        got = pickle.loads(r.stdout)
        out = {}
        for k, d in (("dtype", got["dtype"]), ("array", got["array"].dtype), ("series", got["series"].dtype),
                     ("frame", got["frame"]["c"].dtype)):
            out[k] = {"eq": d == here, "hash": hash(d) == hash(here), "one_set_element": len({d, here}) == 1,
                      "dict_key": {here: 1}.get(d) == 1, "name": d.name == here.name}
        return out
    want = {k: {"eq": True, "hash": True, "one_set_element": True, "dict_key": True, "name": True}
            for k in ("dtype", "array", "series", "frame")}
    ctx.case("dtype.pickle_other_process", {"fields": fields}, call_real(probe), None, {"ok": want}, features=("other_process",))


def run_all(ctx):
    rng = ctx.rng
    cat = alias_catalogue()
    aliases = [[a, r] for a, r, _ in cat]
    # parameter laws of the model (DESIGN §8): rendering an alias type gives an alias of the same type
    for a, r, t in cat:
        ok = True
        try:
            ok = pa.type_for_alias(r).equals(t)
        except Exception:
            ok = False
        ctx.case("dtype.law.alias_of_render", {"alias": a, "render": r}, {"ok": ok}, None, {"ok": True}, features=("law",),
                 spec_ok=None)
        # every alias exhaustively: build, report back, name, parse
        d = NestedDtype.from_fields({"v": t})
        rep = call_real(lambda: fields_of(d))
        ctx.case("dtype.fields", {"type": r}, rep, None, {"ok": [["v", r]]}, features=("exhaustive",))
        nm = ctx.driver.call("dtype.name", fields=[["v", r]])["model"]["ok"]
        ctx.case("dtype.name", {"type": r}, {"ok": d.name}, {"ok": nm}, None, features=("exhaustive",))
        case_parse(ctx, d.name, aliases, expected=[["v", r]], feats=("exhaustive",))
        case_parse(ctx, f"nested<v: [{a}]>", aliases, expected=[["v", r]], feats=("alias_spelling",))
    # parametric element types: refused with TypeError or parsed to the same dtype, never mis-parsed
    for t in parametric_types():
        d = NestedDtype.from_fields({"p": t, "k": pa.int64()})
        rep = call_real(lambda: fields_of(d))
        ctx.case("dtype.fields", {"type": str(t)}, rep, None, {"ok": [["p", str(t)], ["k", "int64"]]}, features=("parametric",))
        real = call_real(lambda: parse_real(d.name))
        ok = ("err" in real and real["err"] == "TypeError") or ("ok" in real and real["ok"] == fields_of(d))
        ans = ctx.driver.call("dtype.parse", string=d.name, aliases=aliases)["model"]
        ctx.case("dtype.parse.parametric", {"string": d.name}, real, ans, None, features=("parametric",), spec_ok=ok)
        # identity of a dtype over a parametric element type: reports the type back, equals the dtype built from the
        # struct type, survives pickling and deep copies — as a dtype, inside an array, inside a Series
        import copy as _copy

        def ident():
            st = pa.struct([pa.field("p", pa.list_(t)), pa.field("k", pa.list_(pa.int64()))])
            d3 = NestedDtype(st)
            arr = NestedExtensionArray(pa.chunked_array([pa.array([], type=st)], type=st))
            ser = pd.Series(arr, name="c")
            out = {"reports": bool(d.fields["p"].equals(t)) and bool(d.pyarrow_dtype.equals(st)),
                   "eq_struct_built": d == d3 and hash(d) == hash(d3),
                   "from_own_fields": NestedDtype.from_fields(d.fields) == d,
                   "differs_from_element_swapped": d != NestedDtype.from_fields({"p": pa.int64(), "k": pa.int64()})}
            # an equal Arrow type that only spells the name of an inner list item differently ("element" is what data read
            # from parquet carries): equal dtypes, so one dict / set key
            twin = None
            if pa.types.is_list(t) or pa.types.is_large_list(t):
                mk = pa.list_ if pa.types.is_list(t) else pa.large_list
                twin = mk(pa.field("element", t.value_type))
            elif pa.types.is_struct(t):
                twin = pa.struct([pa.field("p", pa.int64()), pa.field("q", pa.string())])
            if twin is not None and twin.equals(t):
                d4 = NestedDtype.from_fields({"p": twin, "k": pa.int64()})
                out["equal_type_respelled"] = bool(d == d4) and hash(d) == hash(d4) and len({d, d4}) == 1
            else:
                out["equal_type_respelled"] = True
            for nm, f in (("pickle_dtype", lambda: pickle.loads(pickle.dumps(d)) == d),
                          ("deepcopy_dtype", lambda: _copy.deepcopy(d) == d),
                          ("pickle_array", lambda: pickle.loads(pickle.dumps(arr)).dtype == d),
                          ("deepcopy_array", lambda: _copy.deepcopy(arr).dtype == d),
                          ("pickle_series", lambda: pickle.loads(pickle.dumps(ser)).dtype == d),
                          ("pickle_frame", lambda: pickle.loads(pickle.dumps(NestedFrame({"c": ser})))["c"].dtype == d)):
                r = call_real(f)
                out[nm] = r["ok"] if "ok" in r else f"{r.get('err')}"
            return out
        keys = ["reports", "eq_struct_built", "from_own_fields", "differs_from_element_swapped", "equal_type_respelled", "pickle_dtype", "deepcopy_dtype",
                "pickle_array", "deepcopy_array", "pickle_series", "pickle_frame"]
        ctx.case("dtype.identity.parametric", {"type": str(t)}, call_real(ident), None, {"ok": {k2: True for k2 in keys}},
                 features=("parametric",))
    plain = [(a, r, t) for a, r, t in cat]
    for i in range(ctx.budget(250, 3000)):
        k = rng.choice([1, 2, 2, 3, 4])
        names = rng.sample(NAME_POOL, k)
        types = [rng.choice(plain) for _ in range(k)]
        fields = {n: t for n, (_, _, t) in zip(names, types)}
        exp = [[n, r] for n, (_, r, _) in zip(names, types)]
        d = NestedDtype.from_fields(fields)
        ctx.case("dtype.fields", {"fields": exp}, call_real(lambda: [fields_of(d), list(d.field_names)]), None,
                 {"ok": [exp, names]}, features=(f"k={k}",))
        # equality / hash: same fields in the same order, and only those
        d2 = NestedDtype.from_fields(dict(fields))
        d3 = NestedDtype(pa.struct([pa.field(n, pa.list_(t)) for n, t in fields.items()]))
        perm = list(fields.items())
        rng.shuffle(perm)
        dperm = NestedDtype.from_fields(dict(perm))
        other_t = rng.choice(plain)[2]
        changed = dict(fields)
        changed[names[0]] = other_t
        dchg = NestedDtype.from_fields(changed)
        renamed = NestedDtype.from_fields({(n + "_" if j == 0 else n): t for j, (n, t) in enumerate(fields.items())})
        # a proper prefix / an extension of the field list is another dtype (also through the string name)
        ext_name = "zz_extra"
        dext = NestedDtype.from_fields({**fields, ext_name: rng.choice(plain)[2]})
        dpre = NestedDtype.from_fields(dict(list(fields.items())[:-1])) if k > 1 else None
        real = call_real(lambda: {
            "prefix": (d != dext) and (dext != d) and not (d == dext) and not (dext == d) and (d != dext.name) and (dext != d.name)
                      and (dpre is None or ((d != dpre) and (dpre != d) and not (dpre == d) and not (d == dpre.name))),
            "eq_same": d == d2 and d == d3 and hash(d) == hash(d2) == hash(d3),
            "perm": (d == dperm) == ([n for n, _ in perm] == names),
            "changed": (d == dchg) == other_t.equals(fields[names[0]]),
            "renamed": d != renamed,
            "arrow_roundtrip": NestedDtype.from_pandas_arrow_dtype(d.to_pandas_arrow_dtype()) == d
                               and d.to_pandas_arrow_dtype() == pd.ArrowDtype(d.pyarrow_dtype),
            "pickle": pickle.loads(pickle.dumps(d)) == d and hash(pickle.loads(pickle.dumps(d))) == hash(d),
            "not_eq_other": d != "int64" and d != pd.ArrowDtype(d.pyarrow_dtype),
        })
        ctx.case("dtype.identity", {"fields": exp, "perm": [n for n, _ in perm]}, real, None,
                 {"ok": {k2: True for k2 in ["prefix", "eq_same", "perm", "changed", "renamed", "arrow_roundtrip", "pickle",
                                             "not_eq_other"]}},
                 features=(f"k={k}",))
        # name -> parse.  Names containing the separators of the format are outside the property.
        sep_free = all(", " not in n and ": " not in n and "[" not in n and "]" not in n for n in names)
        nm = ctx.driver.call("dtype.name", fields=exp)["model"]["ok"]
        ctx.case("dtype.name", {"fields": exp}, {"ok": d.name}, {"ok": nm}, None, features=(f"k={k}",))
        case_parse(ctx, d.name, aliases, expected=exp if sep_free else None,
                   feats=(f"k={k}", f"sep_free={sep_free}"))
        # through pandas: the string name as a dtype argument
        if sep_free:
            real = call_real(lambda: fields_of(pd.Series([], dtype=d.name).dtype))
            ctx.case("dtype.pandas_string_dtype", {"name": d.name}, real, None, {"ok": exp}, features=(f"k={k}",))
        # malformed strings: truncated / permuted / mutated
        sname = d.name
        muts = [sname[:rng.randint(0, len(sname))], sname[rng.randint(0, len(sname)):], sname.replace(": ", ":", 1),
                sname.replace("[", "", 1), sname.replace("]", "", 1), sname + ">", sname[:-1], "nested<" + sname,
                sname.replace(", ", ",", 1), sname.replace("nested<", "nested<, ", 1), sname.upper(),
                "".join(rng.sample(sname, len(sname))), sname.replace("v", ""), sname.replace(">", " >"),
                sname.replace("<", "< ", 1), sname.replace("]", "] ", 1)]
        for m in rng.sample(muts, 5):
            case_parse(ctx, m, aliases, feats=("malformed",))
    # duplicate field names (a struct type may repeat a name)
    for i in range(ctx.budget(10, 60)):
        t1, t2 = rng.choice(plain), rng.choice(plain)
        d = NestedDtype(pa.struct([pa.field("a", pa.list_(t1[2])), pa.field("a", pa.list_(t2[2]))]))
        real = call_real(lambda: parse_real(d.name))
        ans = ctx.driver.call("dtype.parse", string=d.name, aliases=aliases)["model"]
        exp = [["a", t1[1]], ["a", t2[1]]]
        ok = ("err" in real) or (real["ok"] == exp)
        ctx.case("dtype.parse", {"string": d.name}, real, ans, None, hyp={"dup_names": True}, features=("dup_names",),
                 spec_ok=ok, mode="dup_names")


def case_declared_dtype_null_field(ctx):
    """a field whose values are all missing gets the Arrow `null` element type when packed; in-place assignment of
    real values through the accessor must keep the declared dtype and the stored type equal (or refuse)"""
    from nested_pandas.series.packer import pack_flat
    rng = ctx.rng
    n = rng.randint(2, 5)
    labels = sorted(rng.randint(0, 2) for _ in range(n))
    df = pd.DataFrame({"a": np.arange(n, dtype=np.int64), "b": pd.Series([None] * n, dtype=object)}, index=pd.Index(labels))
    how = rng.choice(["series", "frame_column"])
    t = rng.choice(["double", "int64", "string"])
    vals = gen.flat_array([gen.rand_cell(rng, t, p_null=0.0) if False else gen.rand_cell(rng, t) for _ in range(n)], t)
    form = rng.choice(["array", "scalar", "numpy"])

    def run():
        ser = pack_flat(df, name="n")
        if how == "frame_column":
            nf = NestedFrame({"x": np.arange(len(ser))}, index=ser.index)
            nf["n"] = ser
            obj = nf["n"]
        else:
            obj = ser
        outcome = "ok"
        try:
            if form == "scalar":
                obj.nest["b"] = {"double": 1.5, "int64": 3, "string": "s"}[t]
            elif form == "numpy" and t != "string":
                obj.nest["b"] = np.asarray(vals.to_pandas())
            else:
                obj.nest["b"] = vals
        except Exception as e:  # noqa: BLE001
            outcome = type(e).__name__
        holder = nf["n"] if how == "frame_column" else ser
        arr = holder.array
        return {"outcome_is_error_or_consistent": True,
                "declared_eq_stored": bool(holder.dtype.pyarrow_dtype.equals(arr.chunked_array.type)
                                           and str(holder.dtype) == str(NestedDtype(arr.chunked_array.type))),
                "series_eq_array": bool(holder.dtype.pyarrow_dtype.equals(arr.dtype.pyarrow_dtype)),
                "flat_type_is_declared": str(pa.array(holder.nest["b"]).type) == dict(fields_of(holder.dtype))["b"]}
    ctx.case("dtype.declared.null_field", {"labels": labels, "ty": t, "form": form, "how": how}, call_real(run), None,
             {"ok": {"outcome_is_error_or_consistent": True, "declared_eq_stored": True, "series_eq_array": True,
                     "flat_type_is_declared": True}}, features=("null_field", t, form, how), nontrivial=True)


def case_declared_dtype(ctx, s: Subject):
    """a column's declared dtype always equals the type of the data it stores, after any edit made
    through the accessor or the frame"""
    rng = ctx.rng
    ser = s.series()
    n = len(ser)
    names = [x for x, _ in s.ty]
    hist = []

    def check(obj, tag):
        def f():
            arr = obj.array
            stored = NestedDtype(arr.chunked_array.type)
            flat_ty = {c: str(pa.array(obj.nest[c]).type) for c in obj.nest.fields} if len(obj) >= 0 else {}
            # structural comparison through pyarrow as well: the claim must not rest on NestedDtype.__eq__ alone
            return {"series_eq_array": obj.dtype == arr.dtype and obj.dtype.pyarrow_dtype.equals(arr.dtype.pyarrow_dtype),
                    "declared_eq_stored": obj.dtype == stored and obj.dtype.pyarrow_dtype.equals(arr.chunked_array.type)
                                          and str(obj.dtype) == str(stored),
                    "fields_eq_flat": {k: v for k, v in fields_of(obj.dtype)} == flat_ty}
        real = call_real(f)
        ctx.case(f"dtype.declared[{tag}]", {**s.desc(), "history": list(hist)}, real, None,
                 {"ok": {"series_eq_array": True, "declared_eq_stored": True, "fields_eq_flat": True}}, hyp=s.hyp,
                 features=(tag,))
    check(ser, "start")
    cur = ser
    for step in range(rng.randint(1, 3)):
        total = int(sum(len(r[0][1]) for r in export.rows_view(cur.array) if r)) if not s.hyp.get("hidden") else None
        if total is None:
            return
        op = rng.choice(["with_flat", "with_flat_existing", "nest_setitem_other_type", "nest_setitem_chunked", "without",
                         "frame_setitem", "with_list", "eval_assign", "assign_whole_other_dtype", "assign_whole_frame_loc",
                         "frame_setitem_scalar", "eval_assign_scalar"])
        prev = cur
        t = rng.choice(gen.TYNAMES)
        cells = [gen.rand_cell(rng, t) for _ in range(total)]
        arr = gen.flat_array(cells, t)
        hist.append({"op": op, "ty": t})
        try:
            if op in ("assign_whole_other_dtype", "assign_whole_frame_loc"):
                # whole-column in-place assignment of nested values of ANOTHER nested dtype (fields reversed, or one
                # field's element type changed): cast to the column's own dtype or refused — never stored as they are
                fs = list(cur.nest.fields)
                other = cur.nest[fs[::-1]] if (len(fs) > 1 and rng.random() < 0.5) else cur.nest.with_flat_field(fs[0], arr)
                tgt = cur.copy()
                _ = tgt.dtype, tgt.dtypes      # a user has looked at the dtype before (pandas caches it per block)
                if op == "assign_whole_other_dtype":
                    if rng.random() < 0.5:
                        tgt[:] = other.array
                    else:
                        tgt.iloc[:] = other
                    cur = tgt
                else:
                    nf = NestedFrame({"k": np.arange(len(tgt))}, index=tgt.index)
                    nf["nest"] = tgt
                    _ = nf.dtypes, nf["nest"].dtype
                    nf.loc[:, "nest"] = other
                    cur = nf["nest"]
            elif op == "with_flat":
                cur = cur.nest.with_flat_field("z", arr)
            elif op == "with_flat_existing":
                cur = cur.nest.with_flat_field(rng.choice(list(cur.nest.fields)), arr)
            elif op == "nest_setitem_other_type":
                cur = cur.copy()
                _ = cur.dtype
                cur.nest[rng.choice(list(cur.nest.fields))] = arr      # keeps the dtype or raises
            elif op == "nest_setitem_chunked":
                cur = pd.concat([cur.iloc[:len(cur) // 2], cur.iloc[len(cur) // 2:]])
                other = rng.choice(list(cur.nest.fields))
                k = len(arr) // 2
                val = pd.Series(pa.chunked_array([arr.slice(0, k), arr.slice(k)]), dtype=pd.ArrowDtype(arr.type),
                                index=cur.nest.get_flat_index())
                cur.nest[other] = val
            elif op == "without":
                fs = list(cur.nest.fields)
                if len(fs) > 1:
                    cur = cur.nest.without_field(fs[0])
            elif op == "with_list":
                lens = [0 if r is None else len(r[0][1]) for r in export.rows_view(cur.array)]
                lists, k = [], 0
                for ln in lens:
                    lists.append(cells[k:k + ln])
                    k += ln
                cur = cur.nest.with_list_field("w", gen.mk_list_array(lists, t))
            elif op in ("frame_setitem_scalar", "eval_assign_scalar"):
                # ONE value for every record of an existing field, of ANOTHER kind than the field's element type,
                # through the frame (the frame's dtypes were looked at before)
                nf = NestedFrame({"nest": cur})
                _ = nf.dtypes, nf["nest"].dtype, nf.nested_columns
                tymap = dict(fields_of(cur.dtype))
                f = rng.choice(list(cur.nest.fields))
                scalar = rng.choice([0, 1.5, "s"] if op == "frame_setitem_scalar" else [0, 1.5])
                hist[-1].update(field=f, field_ty=tymap[f], scalar=repr(scalar))
                if op == "frame_setitem_scalar":
                    nf[f"nest.{f}"] = scalar
                else:
                    r = nf.eval(f"nest.{f} = {scalar!r}")
                    check(nf["nest"], "eval_receiver")
                    nf = r
                check(nf["nest"], f"{op}_column")
                if not (nf.dtypes["nest"] == nf["nest"].array.dtype and nf.copy().dtypes["nest"] == nf.dtypes["nest"]):
                    ctx.case("dtype.declared.frame_dtypes", {**s.desc(), "history": list(hist)},
                             {"ok": [str(nf.dtypes["nest"]), str(nf["nest"].array.dtype), str(nf.copy().dtypes["nest"])]}, None,
                             {"ok": "the frame, its column's storage and its copy declare one dtype"}, spec_ok=False)
                cur = nf["nest"]
            elif op == "frame_setitem":
                nf = NestedFrame({"nest": cur})
                nf[f"nest.{rng.choice(list(cur.nest.fields) + ['q'])}"] = arr
                cur = nf["nest"]
            else:
                nf = NestedFrame({"nest": cur})
                numf = [c for c, tt in fields_of(cur.dtype) if tt in ("int64", "double")]
                if not numf:
                    continue
                nf = nf.eval(f"nest.{rng.choice(numf + ['r'])} = nest.{numf[0]} * 2")
                cur = nf["nest"]
        except Exception as e:  # noqa: BLE001  (a refused edit is fine; the dtype claim is about what exists)
            hist[-1]["raised"] = type(e).__name__
        check(cur, op)
        # the object the new one was derived from still declares what IT stores (dtype objects are not shared mutably)
        check(prev, f"source_after_{op}")
        check(ser, "original_after_history")
