"""Physical export of Arrow storage (what pyarrow shows) and logical views through public observers."""
from .common import *  # noqa: F401,F403
from .common import pa, pd, np, arrow_values_to_cells, enc_elem, tystr, NestedDtype


def export_list(la, ty):
    """pa.ListArray (possibly sliced) -> {"offs","valid","vals"}: raw offsets window, validity, whole child."""
    return {
        "offs": la.offsets.to_pylist(),
        "valid": la.is_valid().to_pylist(),
        "vals": arrow_values_to_cells(la.values, ty),
    }


def struct_ty(t):
    return [[f.name, tystr(f.type.value_type)] for f in t]


def export_struct(sa):
    ty = struct_ty(sa.type)
    return {
        "valid": sa.is_valid().to_pylist(),
        "kids": [export_list(sa.field(i), ty[i][1]) for i in range(sa.type.num_fields)],
        "ty": ty,
    }


def export_col(ca):
    """pa.ChunkedArray of struct<list…> -> PCol JSON."""
    if isinstance(ca, pa.Array):
        ca = pa.chunked_array([ca])
    return {"ty": struct_ty(ca.type), "chunks": [export_struct(ch) for ch in ca.iterchunks()]}


def export_ext(ext):
    return export_col(ext.chunked_array)


def export_ls(la):
    """pa.ListArray of structs -> PLS JSON."""
    st = la.type.value_type
    vals = la.values
    return {
        "offs": la.offsets.to_pylist(),
        "valid": la.is_valid().to_pylist(),
        "fields": [arrow_values_to_cells(vals.field(i), tystr(st[i].type)) for i in range(st.num_fields)],
    }


def label(v):
    if isinstance(v, (int, np.integer)):
        return int(v)
    return str(v)


def labels(index):
    return [label(v) for v in index.tolist()]


def export_series(s):
    return {"index": labels(s.index), "col": export_ext(s.array)}


# ---- logical views, public observers only -------------------------------------------------

def dtype_ty(dtype):
    return [[n, tystr(t)] for n, t in dtype.fields.items()]


def row_view(df, ty):
    """A per-row DataFrame (element view) -> protocol row."""
    if df is None or df is pd.NA:
        return None
    tymap = dict(map(tuple, ty))
    return [[c, [enc_elem(v, tymap.get(c, "int64")) for v in df[c].tolist()]] for c in df.columns]


def rows_view(ext_or_series):
    """list(series) through the public iteration protocol."""
    ext = ext_or_series.array if isinstance(ext_or_series, pd.Series) else ext_or_series
    ty = dtype_ty(ext.dtype)
    return [row_view(df, ty) for df in ext]


def col_view(ext):
    ext = ext.array if isinstance(ext, pd.Series) else ext
    return {"ty": dtype_ty(ext.dtype), "rows": rows_view(ext)}


def flat_df_view(df):
    """A flat DataFrame with Arrow-typed columns -> {"index","cols"} (NaN and null kept apart)."""
    cols = []
    for c in df.columns:
        arr = pa.array(df[c])
        if isinstance(arr, pa.ChunkedArray):
            arr = arr.combine_chunks()
        cols.append([str(c), tystr(arr.type), arrow_values_to_cells(arr, tystr(arr.type))])
    return {"index": labels(df.index), "cols": cols}


def list_df_view(df):
    cols = []
    for c in df.columns:
        arr = pa.array(df[c])
        if isinstance(arr, pa.ChunkedArray):
            arr = arr.combine_chunks()
        vt = tystr(arr.type.value_type)
        vals = []
        for i in range(len(arr)):
            x = arr[i]
            vals.append(None if not x.is_valid else arrow_values_to_cells(x.values, vt))
        cols.append([str(c), vt, vals])
    return {"index": labels(df.index), "cols": cols}
