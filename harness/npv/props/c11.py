"""C11 — sorting by a nested field permutes records inside each row only."""
from .. import ops_nf, ops_frame
from ..subject import Subject

ASSUMPTIONS = ["the order relation of the property leaves ties and the placement of NaN among numbers open; "
               "the model fixes them (stable, NaN above all numbers) and the oracle is the relation"]


def run(ctx):
    for i in range(ctx.budget(220, 3000)):
        s = Subject(ctx, maxlen=5, p_big=(0.6 if i % 4 == 0 else 0.0))
        ops_nf.case_sort(ctx, s)
        if i % 10 == 0:
            ops_nf.case_sort_refusal(ctx, s)
        if i % 8 == 0:
            # 64-bit identifiers: neighbouring integers beyond 2**53 (equal as float64) in one row, a null elsewhere
            rng = ctx.rng
            base = rng.choice([2**53, 2**62, -(2**53) - 4, 2**60 + 12345])
            nb = [base + d for d in rng.sample(range(0, 4), rng.randint(2, 4))]
            rows = []
            for r in range(rng.randint(2, 4)):
                k = rng.randint(1, 3)
                rows.append([["a", [rng.choice([None, rng.randint(-3, 6), base + 7]) for _ in range(k)]],
                             ["b", [{"f": rng.randint(-6, 12)} for _ in range(k)]]])
            j = rng.randrange(len(rows))
            rows[j] = [["a", nb], ["b", [{"f": rng.randint(-6, 12)} for _ in nb]]]
            jn = rng.choice([x for x in range(len(rows)) if x != j])
            rows[jn][0][1][0] = None
            ops_nf.case_sort(ctx, Subject(ctx, content={"ty": [["a", "int64"], ["b", "double"]], "rows": rows}))
        if i % 40 == 3:
            # rows of very different sizes: a few records between rows of a hundred and more (row boundaries must be
            # found exactly, not estimated)
            rng = ctx.rng
            rows = []
            for k in rng.sample([150, 3, 150, 1, 0, 70, 200, 2], rng.randint(3, 4)):
                rows.append([["a", [rng.randint(-50, 50) for _ in range(k)]], ["b", [{"f": rng.randint(-6, 12)} for _ in range(k)]]])
            if not any(len(r[0][1]) >= 150 for r in rows):
                rows[0] = [["a", [rng.randint(-50, 50) for _ in range(150)]], ["b", [{"f": 1} for _ in range(150)]]]
            ops_nf.case_sort(ctx, Subject(ctx, content={"ty": [["a", "int64"], ["b", "double"]], "rows": rows}))
        if i % 6 == 0:
            ops_nf.case_sort(ctx, s, nest_name="my nest")
        if i % 5 == 0:
            ops_frame.case_row_moves(ctx, Subject(ctx))   # (no huge ints: the element view shows them as floats)
