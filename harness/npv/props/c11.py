"""C11 — sorting by a nested field permutes records inside each row only."""
from .. import ops_nf, ops_frame
from ..subject import Subject

ASSUMPTIONS = ["the order relation of the property leaves ties and the placement of NaN among numbers open; "
               "the model fixes them (stable, NaN above all numbers) and the oracle is the relation"]


def run(ctx):
    for i in range(ctx.budget(220, 3000)):
        s = Subject(ctx, maxlen=5, p_big=(0.3 if i % 4 == 0 else 0.0))
        ops_nf.case_sort(ctx, s)
        if i % 10 == 0:
            ops_nf.case_sort_refusal(ctx, s)
        if i % 6 == 0:
            ops_nf.case_sort(ctx, s, nest_name="my nest")
        if i % 5 == 0:
            ops_frame.case_row_moves(ctx, Subject(ctx))   # (no huge ints: the element view shows them as floats)
