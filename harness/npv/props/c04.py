"""C04 — behaviour does not depend on physical layout or construction history."""
from .. import ops_meta

ASSUMPTIONS = ["the layouts of gen.LAYOUTS × missing-row styles cover the layouts named in the property"]


def run(ctx):
    ops_meta.metamorphic(ctx, ctx.budget(60, 700))
    for _ in range(ctx.budget(60, 600)):
        ops_meta.case_construction_history(ctx)
