"""C12 — dropna in a nested layer removes incomplete records per row."""
from .. import ops_nf
from ..subject import Subject

ASSUMPTIONS = ["pandas DataFrame.dropna on the Arrow-typed flat view: a null is missing, NaN is a value"]


def run(ctx):
    for i in range(ctx.budget(220, 3000)):
        s = Subject(ctx, p_null=0.3)
        ops_nf.case_dropna(ctx, s)
        if i % 4 == 0:
            ops_nf.case_dropna_base(ctx, s)
        if i % 10 == 0:
            ops_nf.case_dropna_refusals(ctx, s)
        if i % 6 == 0:
            ops_nf.case_dropna(ctx, s, nest_name="my nest")
