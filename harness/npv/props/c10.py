"""C10 — row-wise computation sees exactly each row's own data."""
from .. import ops_nf, ops_names
from ..subject import Subject

ASSUMPTIONS = ["the user function is opaque: the model returns the call log, the oracle replays the recorded returns"]


def run(ctx):
    for i in range(ctx.budget(220, 3000)):
        s = Subject(ctx)
        ops_nf.case_reduce(ctx, s)
        if i % 2 == 0:
            ops_nf.case_count_nested(ctx, s)
        if i % 4 == 1:
            # paths ending in the same name in different layers, in ONE call
            ops_names.case_reduce_many_paths(ctx)
        if i % 4 == 3:
            ops_nf.case_reduce_after_inplace_field(ctx, Subject(ctx, allow_hidden=False))
