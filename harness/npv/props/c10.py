"""C10 — row-wise computation sees exactly each row's own data."""
from .. import ops_nf, ops_names
from ..subject import Subject

ASSUMPTIONS = ["the user function is opaque: the model returns the call log, the oracle replays the recorded returns"]


def run(ctx):
    for i in range(ctx.budget(220, 3000)):
        s = Subject(ctx)
        ops_nf.case_reduce(ctx, s)
        if i % 2 == 0:
            ops_nf.case_count_nested(ctx, s)
        if i % 4 == 1:
            # paths ending in the same name in different layers, in ONE call
            ops_names.case_reduce_many_paths(ctx)
        if i % 4 == 3:
            ops_nf.case_reduce_after_inplace_field(ctx, Subject(ctx, allow_hidden=False))
        if i % 8 == 5:
            # as many records in total as the frame has rows, without one record in every row
            from .. import gen
            ty = gen.rand_ty(ctx.rng)
            lens = ctx.rng.choice([[2, 0, 1], [0, 3, 0, 1], [0, 2], [3, 0, 0], [1, 2, 0, 1, 1], [0, 0, 2, 2]])
            ctx.rng.shuffle(lens)
            rows = [[[n, [gen.rand_cell(ctx.rng, t) for _ in range(k)]] for n, t in ty] for k in lens]
            ops_nf.case_reduce_after_inplace_field(ctx, Subject(ctx, content={"ty": ty, "rows": rows}, allow_hidden=False))
