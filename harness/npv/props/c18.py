"""C18 — results stay nested: the API is closed under its own operations."""
from .. import ops_closure

LEVEL = "proof"
ASSUMPTIONS = ["the per-operation rules of State/Kinds.lean are pandas runtime behaviour (constructor propagation, dtype "
               "preservation): validated on every step of every chain; the composition over chains is what is proved (partial)"]


def run(ctx):
    ops_closure.run_all(ctx)
