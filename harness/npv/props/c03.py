"""C03 — element, flat, list and summary views describe the same data."""
from .. import ops_array, ops_nf, ops_entry
from ..subject import Subject

ASSUMPTIONS = [
    "pyarrow window kernels (.offsets/.values/.field/.flatten/list_value_length) as modelled in NPModel/Arrow",
]


def run(ctx):
    n = ctx.budget(200, 2500)
    for i in range(n):
        s = Subject(ctx)
        ops_array.case_observers(ctx, s)
        ops_array.case_views(ctx, s)
        if i % 4 == 0:
            ops_nf.case_frame_getfield(ctx, s)
    # the views of an object after it was produced by other operations / mutated in place
    ops_array.derived_views(ctx, ctx.budget(60, 600))
    ops_array.history_same_object(ctx, ctx.budget(60, 600))
    for i in range(ctx.budget(40, 400)):
        ops_entry.case_views_of_accepted_windows(ctx)
