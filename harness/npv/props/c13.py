"""C13 — eval computes on the flat view and assigns fields positionally."""
from .. import ops_nf
from ..subject import Subject

ASSUMPTIONS = ["pandas' expression engine is elementwise on the flat view (NPModel/Pandas/Expr.lean)"]


def run(ctx):
    for i in range(ctx.budget(200, 2500)):
        s = Subject(ctx)
        ops_nf.case_eval(ctx, s)
        ops_nf.case_eval_assign(ctx, s)
        if i % 3 == 0:
            ops_nf.case_eval_multiline(ctx, s)
        if i % 6 == 0:
            ops_nf.case_eval_assign(ctx, s, nest_name="my nest")
