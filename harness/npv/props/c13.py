"""C13 — eval computes on the flat view and assigns fields positionally."""
from .. import ops_nf
from ..subject import Subject

ASSUMPTIONS = ["pandas' expression engine is elementwise on the flat view (NPModel/Pandas/Expr.lean)"]


def run(ctx):
    for i in range(ctx.budget(200, 2500)):
        s = Subject(ctx)
        ops_nf.case_eval(ctx, s)
        ops_nf.case_eval_assign(ctx, s)
        if i % 3 == 0:
            ops_nf.case_eval_multiline(ctx, s)
        if i % 5 == 0:
            ops_nf.case_eval_multiline(ctx, s, nest_name="my nest")
        if i % 6 == 0:
            ops_nf.case_eval_assign(ctx, s, nest_name="my nest")
        if i % 7 == 0:
            # a frame with rows whose nest holds NO record at all (every row empty or missing): assignments to a field of
            # it and to a field of a NEW nest made from it
            rng = ctx.rng
            ty0 = rng.choice([[["a", "int64"], ["b", "double"]], [["a", "double"]]])
            rows0 = [rng.choice([None, [[nm, []] for nm, _ in ty0]]) for _ in range(rng.randint(1, 4))]
            s0 = Subject(ctx, content={"ty": ty0, "rows": rows0}, allow_hidden=False)
            ops_nf.case_eval_assign(ctx, s0, target="new_nest")
            ops_nf.case_eval_assign(ctx, s0, target=rng.choice(["new", "existing"]))
        if i % 4 == 0:
            # exactly one record in every row: the flat index IS the frame index, the assignment takes the
            # "one value per row" route and must still store what the expression computed (values, nulls, type)
            s1 = Subject(ctx, maxlen=1, p_missing=0.0, p_empty=0.0, nrows=ctx.rng.randint(2, 6),
                         ty=ctx.rng.choice([[["a", "int64"], ["b", "double"]], [["a", "double"]], [["a", "int64"]]]))
            ops_nf.case_eval_assign(ctx, s1)
            ops_nf.case_eval(ctx, s1)
