"""C09 — nesting attaches to each row exactly the records carrying its label."""
from .. import ops_nf
from ..subject import Subject

ASSUMPTIONS = ["pandas DataFrame.join(how) on a uniquely-labelled right table as modelled in NPModel/Impl/Frame.lean (addNested)"]


def run(ctx):
    for i in range(ctx.budget(250, 3000)):
        ops_nf.case_add_nested(ctx)
        if i % 3 == 0:
            ops_nf.case_from_flat(ctx)
        if i % 4 == 0:
            ops_nf.case_add_nested_on(ctx)
        if i % 3 == 1:
            ops_nf.case_from_lists(ctx, Subject(ctx, p_missing=0.0, allow_hidden=False))
        if i % 4 == 1:
            ops_nf.case_new_nest_setitem(ctx)
        if i % 25 == 0:
            ops_nf.case_from_lists_empty(ctx)
