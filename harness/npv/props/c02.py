"""C02 — packing and unpacking are lossless inverses."""
from .. import ops_pack

ASSUMPTIONS = ["pandas sort_index(kind='stable'), Index.duplicated, np.nonzero as modelled in NPModel/Impl/Accessor.lean"]


def run(ctx):
    ops_pack.run_all(ctx)
