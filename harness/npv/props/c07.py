"""C07 — a query on a nested field filters inside every row, and only there."""
from .. import ops_nf, ops_names
from ..subject import Subject

ASSUMPTIONS = [
    "pandas' expression engine is elementwise on the flat view (NPModel/Pandas/Expr.lean), Kleene logic for nulls, "
    "NA treated as False by boolean selection — validated on every generated expression",
    "conditions come from the grammar of the property (comparisons, + - x by integer constants, and/or/not)",
]


def run(ctx):
    n = ctx.budget(200, 3000)
    for i in range(n):
        s = Subject(ctx)
        ops_nf.case_query(ctx, s)
        if i % 3 == 0:
            ops_nf.case_query_base(ctx, s)
        if i % 4 == 1:
            # in place, on repeated labels whose rows disagree on the condition
            ops_nf.case_query_base(ctx, Subject(ctx, nrows=ctx.rng.randint(4, 8)), inplace=True,
                                   label_pattern=ctx.rng.choice(["dup_unsorted", "dup_sorted", "desc_dups"]))
        if i % 4 == 0:
            ops_nf.case_query_mixed(ctx, s)
            ops_nf.case_query_mixed_arith(ctx)
        if i % 3 == 1:
            ops_nf.case_query_flat(ctx, s)
        if i % 5 == 0:
            ops_nf.case_query(ctx, s, nest_name="my nest")
        if i % 8 == 2:
            # marker frames with odd names (incl. sibling fields whose cleaned names coincide): the condition filters
            # by the values of the field the path names
            ops_names.case_paths(ctx, only=("names.query",))
