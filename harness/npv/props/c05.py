"""C05 — a nested column behaves like a sequence of rows."""
from .. import ops_array, ops_frame
from ..subject import Subject

ASSUMPTIONS = [
    "pyarrow take/filter/if_else/slice behave as modelled in NPModel/Arrow/Kernels.lean (validated case by case here)",
    "assigned values address distinct target positions (the property's domain)",
]


def run(ctx):
    n = ctx.budget(150, 1500)
    for i in range(n):
        s = Subject(ctx)
        ops_array.case_getitem(ctx, s)
        ops_array.case_getitem(ctx, s)
        if i % 7 == 0:
            ops_array.case_getitem(ctx, s, valid=False)
        ops_array.case_take(ctx, s)
        ops_array.case_setitem(ctx, s)
        ops_array.case_simple(ctx, s)
        ops_array.case_result_is_new_sequence(ctx, s)
        if i % 4 == 0:
            ops_array.case_concat(ctx)
        if i % 3 == 0:
            ops_frame.case_row_moves(ctx, s)
    ops_array.history_same_object(ctx, ctx.budget(25, 250))
    if ctx.tier == "thorough":
        ops_array.exhaustive_slices(ctx)
