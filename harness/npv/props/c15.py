"""C15 — operations do not mutate their inputs; copies are isolated."""
from .. import ops_heap

ASSUMPTIONS = ["sharing is decided by object identity of the NestedExtensionArray objects (validated with `is` on every step)",
               "in-place edits of base (numpy) columns are only made on argument tables: pandas' own view semantics of base "
               "columns is outside the statement"]


def run(ctx):
    ops_heap.run_all(ctx)
