"""C14 — the dotted name 'nest.field' means the same thing everywhere."""
from .. import ops_names

ASSUMPTIONS = ["pandas' clean_column_name is a parameter of the model; the harness passes its real values for the names of each case"]


def run(ctx):
    ops_names.run_all(ctx)
