"""C19 — Arrow interchange is lossless in both orientations."""
from .. import ops_arrow
from ..subject import Subject

ASSUMPTIONS = ["pyarrow cast/from_arrays/flatten as modelled; pandas Table.from_pandas calls __arrow_array__"]


def run(ctx):
    n = ctx.budget(200, 2500)
    for i in range(n):
        s = Subject(ctx)
        ops_arrow.case_interchange(ctx, s)
        if i % 10 == 1:
            ops_arrow.case_type_request_values(ctx)
        if i % 4 == 2:
            # the same after rows were replaced / made missing in place
            s2 = Subject(ctx, allow_hidden=False)
            if ops_arrow.array_prehistory(ctx, s2):
                ops_arrow.case_interchange(ctx, s2)
