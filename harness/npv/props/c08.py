"""C08 — parquet files round-trip the frame and stay readable by plain Arrow."""
from .. import ops_io

ASSUMPTIONS = ["the parquet codec (pyarrow) returns what was written and projects columns as modelled in NPModel/Impl/IO.lean; "
               "both laws are exercised on real files with every run"]


def run(ctx):
    ops_io.run_all(ctx)
