"""C01 — every nested value is a rectangular table; ragged input is refused."""
from .. import ops_array, ops_entry
from ..subject import Subject

ASSUMPTIONS = [
    "every binding of NestedExtensionArray._chunked_array is observed through a __setattr__ wrapper installed "
    "by the harness (no source hook needed)",
    "null child lists have empty extents (ChildNullEmpty): true of everything pyarrow kernels and pa.array build",
]


def run(ctx):
    with ops_entry.birth_watch(ctx):
        n = ctx.budget(120, 1500)
        for i in range(n):
            s = Subject(ctx, allow_hidden=False)   # hidden child lists under missing rows: finding K1 (C03/C04/C06)
            ops_entry.case_entry_points(ctx, s, ragged=(i % 2 == 0))
            ops_array.case_setitem(ctx, s, ragged=(i % 2 == 1))
            ops_array.case_field_edits(ctx, s, malformed=(i % 3 == 0))
            ops_array.case_take(ctx, s)
            ops_array.case_getitem(ctx, s)
            if i % 6 == 0:
                ops_entry.case_same_names_other_units(ctx)
        ops_array.history_same_object(ctx, ctx.budget(20, 200))
        ops_entry.failed_assign_leaves_object(ctx, ctx.budget(60, 600))
    ops_entry.report_births(ctx)
