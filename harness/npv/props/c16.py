"""C16 — results depend only on data and arguments, not on what ran before."""
from .. import ops_history

ASSUMPTIONS = ["the only hidden state of a NestedFrame is the _aliases attribute (State/Aliases.lean); the probes observe it directly",
               "each probe is compared with the same probe on a freshly built equal frame"]


def run(ctx):
    ops_history.run_all(ctx)
