"""C06 — editing one nested field changes that field and nothing else."""
from .. import ops_array, ops_frame, gen
from ..subject import Subject

ASSUMPTIONS = [
    "values offered have the matching length (the property's domain); wrong lengths are only compared model-vs-code",
]


def run(ctx):
    n = ctx.budget(200, 2500)
    for i in range(n):
        s = Subject(ctx)
        ops_array.case_field_edits(ctx, s, malformed=(i % 5 == 0))
        if i % 2 == 0:
            ops_frame.case_frame_field_assign(ctx, s)
        if i % 3 == 0:
            # a field selection is a new column: editing it in place leaves its source as it was, and vice versa
            ops_array.case_result_is_new_sequence(ctx, s, only="view_")
        if i % 4 == 1:
            # the accessor of a Series object whose array was swapped by an in-place pandas call
            ops_array.case_accessor_after_inplace(ctx, Subject(ctx, allow_hidden=False))
        if i % 6 == 0:
            # as many records as rows, but not one per row (2, missing, 0, 3, 0 …): a flat Series then has the
            # frame's length although it is not aligned with the frame
            rng = ctx.rng
            nr = rng.randint(3, 6)
            lens = [1] * nr
            for _ in range(rng.randint(1, 2)):
                a, b = rng.sample(range(nr), 2)
                lens[a] += lens[b]
                lens[b] = 0
            ty = gen.rand_ty(rng)
            rows = [(None if rng.random() < 0.5 else [[nm, []] for nm, _ in ty]) if k == 0 else
                    [[nm, [gen.rand_cell(rng, t) for _ in range(k)]] for nm, t in ty] for k in lens]
            ops_frame.case_frame_field_assign(ctx, Subject(ctx, content={"ty": ty, "rows": rows}, allow_hidden=False),
                                              form=rng.choice(["flat_series", "flat_series", "base_series"]),
                                              label_pattern=rng.choice(["unique_sorted", "unique_unsorted", "range"]))
