"""C06 — editing one nested field changes that field and nothing else."""
from .. import ops_array, ops_frame
from ..subject import Subject

ASSUMPTIONS = [
    "values offered have the matching length (the property's domain); wrong lengths are only compared model-vs-code",
]


def run(ctx):
    n = ctx.budget(200, 2500)
    for i in range(n):
        s = Subject(ctx)
        ops_array.case_field_edits(ctx, s, malformed=(i % 5 == 0))
        if i % 2 == 0:
            ops_frame.case_frame_field_assign(ctx, s)
