"""C17 — the nested dtype is a faithful, stable description of the column."""
from .. import ops_dtype
from ..subject import Subject

ASSUMPTIONS = [
    "str(pa_type) and pa.type_for_alias are parameters of the model (render / alias?); their laws are checked on "
    "every alias pyarrow accepts, enumerated at run time",
]


def run(ctx):
    ops_dtype.run_all(ctx)
    for _ in range(ctx.budget(3, 12)):
        ops_dtype.case_pickle_other_process(ctx)
    for i in range(ctx.budget(120, 1500)):
        ops_dtype.case_declared_dtype(ctx, Subject(ctx, allow_hidden=False))
        if i % 3 == 0:
            ops_dtype.case_declared_dtype_null_field(ctx)
