"""C18: results stay nested — the API is closed under its own operations."""
import io
import pickle

from . import gen, export
from .common import pa, pd, np, weak_rows, NestedFrame, NestedDtype, NestedExtensionArray
from .runner import call_real
from .subject import Subject


def kinds(nf):
    out = []
    for c in nf.columns:
        t = nf[c].dtype
        if isinstance(t, NestedDtype):
            out.append([str(c), list(t.field_names)])
        elif isinstance(t, pd.ArrowDtype) and (pa.types.is_struct(t.pyarrow_dtype) or pa.types.is_list(t.pyarrow_dtype)):
            out.append([str(c), "degraded"])
        elif t == object and len(nf) and any(isinstance(v, (pd.DataFrame, dict)) for v in nf[c].tolist()):
            out.append([str(c), "degraded"])
        else:
            out.append([str(c), "base"])
    return out


def observe(nf, expected_nested):
    """class, kinds, listing consistency and a usability probe on every column expected to be nested"""
    res = {"cls": type(nf).__name__, "kinds": kinds(nf)}
    res["nested_columns"] = list(nf.nested_columns) if hasattr(nf, "nested_columns") else None
    try:
        res["all_columns"] = {k: [str(x) for x in v] for k, v in nf.all_columns.items()} if hasattr(nf, "all_columns") else None
    except Exception as e:  # noqa: BLE001 — a result whose listing raises is reported as such, with the chain that led to it
        res["all_columns"] = {"listing raised": [f"{type(e).__name__}: {str(e)[:60]}"]}
    usable = {}
    for n in expected_nested:
        if n not in nf.columns:
            usable[n] = "absent"
            continue
        try:
            t = nf[n].dtype
            if not isinstance(t, NestedDtype):
                usable[n] = f"dtype {t}"
                continue
            f = t.field_names[0]
            qn = f"`{n}`" if "." in n else n       # a nest whose own name contains a dot is spelled quoted
            _ = nf[f"{qn}.{f}"]
            _ = nf.query(f"{qn}.{f} == {qn}.{f}")
            g = nf.copy()
            g[f"{qn}.probe"] = np.zeros(int(nf[n].nest.flat_length))
            assert isinstance(g[n].dtype, NestedDtype)
            usable[n] = "ok"
        except Exception as e:  # noqa: BLE001
            usable[n] = f"{type(e).__name__}: {str(e)[:60]}"
    res["usable"] = usable
    return res


def start_frame(ctx):
    rng = ctx.rng
    s = Subject(ctx, allow_hidden=False, nrows=rng.randint(2, 5), ty=[["a", "double"], ["b", "int64"]], p_missing=0.15, p_null=0.1,
                p_nan=0.0)
    n = len(s.content["rows"])
    labels = rng.choice([list(range(n)), gen.rand_labels(rng, n, pattern="unique_unsorted"), gen.rand_labels(rng, n, kind="str", pattern="dup_unsorted")])
    nf = NestedFrame({"x": np.arange(n, dtype=np.float64), "k": np.array([i % 2 for i in range(n)], dtype=np.int64)}, index=pd.Index(labels))
    nf["n"] = pd.Series(s.fresh_ext(), index=nf.index, name="n")
    s2 = Subject(ctx, allow_hidden=False, nrows=n, ty=[["p", "int64"]], p_missing=0.1)
    nf["other"] = pd.Series(s2.fresh_ext(), index=nf.index, name="other")
    return nf, s


def split_assign_concat(f):
    """split the rows by a property of the nested column, assign the same scalar field in every part, combine again
    (the part whose rows hold no element at all must end up with the same nested dtype as the others)"""
    lens = np.asarray(pd.Series(f["n"].array.list_lengths).fillna(0), dtype=np.int64)
    isna = np.asarray(f["n"].isna(), dtype=bool)
    empty = (lens == 0) & ~isna
    parts = [f[empty].copy(), f[isna].copy(), f[~empty & ~isna].copy()]
    for g in parts:
        if len(g):
            g["n.w"] = 1.0
    parts = [g for g in parts if len(g)]
    if not parts:
        g = f.copy()
        g["n.w"] = 1.0
        return g
    return pd.concat(parts)


def case_reject_nesting(ctx):
    """read_parquet(reject_nesting=…): exactly the named columns stay plain struct columns — given as a list or as one
    string, also when another nested column's name is contained in that string"""
    from nested_pandas import read_parquet
    rng = ctx.rng
    nf, s = start_frame(ctx)
    nf = nf.rename(columns={"other": rng.choice(["n_spec", "xn", "n2"])})
    rejected = [c for c in nf.columns if c not in ("n", "x", "k")][0]
    form = rng.choice(["string", "list"])
    buf = io.BytesIO()
    nf.reset_index(drop=True).to_parquet(buf)
    buf.seek(0)

    def run():
        back = read_parquet(buf, reject_nesting=rejected if form == "string" else [rejected])
        out = {"cls": type(back).__name__, "nested_columns": sorted(back.nested_columns),
               "kinds": {str(c): ("nested" if isinstance(back[c].dtype, NestedDtype) else
                                  ("struct" if isinstance(back[c].dtype, pd.ArrowDtype) and pa.types.is_struct(back[c].dtype.pyarrow_dtype)
                                   else "base")) for c in back.columns}}
        # the column that stays nested keeps working
        out["usable"] = len(back.query("n.a > -1e9")) == len(back) if "a" in back["n"].nest.fields else True
        return out
    exp = {"cls": "NestedFrame", "nested_columns": ["n"],
           "kinds": {"x": "base", "k": "base", "n": "nested", rejected: "struct"}, "usable": True}
    ctx.case("closure.reject_nesting", {"start": s.desc(), "rejected": rejected, "form": form}, call_real(run), None, {"ok": exp},
             features=("reject_nesting", form, rejected), nontrivial=True)


def chain_ops(rng):
    """(name, function frame -> frame, abstract operation for the closure model)"""
    row = {"op": "rowOp"}

    def parquet(f):
        from nested_pandas import read_parquet
        buf = io.BytesIO()
        f.reset_index(drop=True).to_parquet(buf)
        buf.seek(0)
        return read_parquet(buf)

    def flat_for(f):
        lab = list(dict.fromkeys(f.index.tolist()))[:2]
        return pd.DataFrame({"v": np.arange(2 * len(lab), dtype=np.float64)}, index=pd.Index(lab * 2, dtype=f.index.dtype))
    def flat_all(f):
        # records for EVERY label of the frame (then the packed labels are exactly the frame's labels)
        lab = list(dict.fromkeys(f.index.tolist()))
        return pd.DataFrame({"v": np.arange(2 * len(lab), dtype=np.float64)}, index=pd.Index(lab * 2, dtype=f.index.dtype))
    ops = [
        ("add_nested_all_labels", lambda f: f.add_nested(flat_all(f), "extra2"), {"op": "addNested", "name": "extra2", "fields": ["v"]}),
        ("add_nested_dotted_name", lambda f: f.add_nested(flat_all(f), "ex.tra"), {"op": "addNested", "name": "ex.tra", "fields": ["v"]}),
        ("query_nested", lambda f: f.query("n.a > 0"), row),
        ("query_nested_none", lambda f: f.query("n.a > 1e9"), row),
        ("query_nested_all", lambda f: f.query("n.b > -1e9"), row),
        ("query_base", lambda f: f.query("x >= 1"), row),
        ("query_base_none", lambda f: f.query("x > 1e9"), row),
        ("sort_nested", lambda f: f.sort_values("n.b", ascending=False), row),
        ("sort_base", lambda f: f.sort_values("k", kind="stable"), row),
        ("dropna_nested", lambda f: f.dropna(subset="n.a"), row),
        ("dropna_nested_all", lambda f: f.dropna(on_nested="n", thresh=99), row),
        ("dropna_base", lambda f: f.dropna(subset=["x"]), row),
        ("eval_assign", lambda f: f.eval("n.c = n.b * 2"), {"op": "addField", "nest": "n", "field": "c"}),
        ("field_assign", lambda f: (lambda g: (g.__setitem__("n.d", np.zeros(int(g["n"].nest.flat_length))), g)[1])(f.copy()),
         {"op": "addField", "nest": "n", "field": "d"}),
        ("add_nested", lambda f: f.add_nested(flat_for(f), "extra"), {"op": "addNested", "name": "extra", "fields": ["v"]}),
        ("iloc_slice", lambda f: f.iloc[1:], row),
        ("iloc_empty", lambda f: f.iloc[0:0], row),
        ("mask", lambda f: f[np.array([i % 2 == 0 for i in range(len(f))], dtype=bool)], row),
        ("head", lambda f: f.head(2), row),
        ("select_cols", lambda f: f[["n", "x", "other"]], {"op": "selectCols", "names": ["n", "x", "other"]}),
        ("concat", lambda f: pd.concat([f, f]), row),
        # concatenation of frames of different provenance (the same logical dtype stored with different Arrow
        # details: parquet names the list child 'element', in-memory packing 'item')
        ("concat_with_parquet", lambda f: pd.concat([f.reset_index(drop=True), parquet(f)]), row),
        ("concat_parquet_first", lambda f: pd.concat([parquet(f), f.reset_index(drop=True).query("x > -1e9")]), row),
        ("concat_parquet_repacked", lambda f: (lambda g: pd.concat([g, g.dropna(on_nested="n", how="all")]))(parquet(f)), row),
        ("concat_with_pickle", lambda f: pd.concat([f, pickle.loads(pickle.dumps(f))]), row),
        ("concat_slices", lambda f: pd.concat([f.iloc[:1], f.iloc[1:]]), row),
        ("split_assign_concat", split_assign_concat, {"op": "addField", "nest": "n", "field": "w"}),
        ("join_base", lambda f: f.join(pd.DataFrame({"j": np.arange(len(f.index.unique()), dtype=np.float64)}, index=f.index.unique())),
         {"op": "addBase", "name": "j"}),
        ("reset_index_drop", lambda f: f.reset_index(drop=True), row),
        ("set_index", lambda f: f.set_index("x", drop=False), row),
        ("copy", lambda f: f.copy(), row),
        ("pickle", lambda f: pickle.loads(pickle.dumps(f)), row),
        ("parquet", parquet, row),
        ("sort_index", lambda f: f.sort_index(kind="stable"), row),
        ("without_field", lambda f: (lambda g: (pd.DataFrame.__setitem__(g, "n", g["n"].nest.without_field("b")), g)[1])(f.copy())
            if "b" in f["n"].nest.fields and len(f["n"].nest.fields) > 1 else f.copy(), {"op": "dropField", "nest": "n", "field": "b"}),
        ("assign_base", lambda f: f.assign(z=1.0), {"op": "addBase", "name": "z"}),
        ("loc_labels", lambda f: f.loc[f.index.unique()[:2]], row),
        ("drop_duplicates_index", lambda f: f[~f.index.duplicated()], row),
    ]
    return ops


def run_chain(ctx, names=None, depth=None):
    rng = ctx.rng
    nf, s = start_frame(ctx)
    ops = chain_ops(rng)
    table = {o[0]: o for o in ops}
    depth = depth or rng.randint(3, 6)
    seq = names or [rng.choice(ops)[0] for _ in range(depth)]
    start_kinds = kinds(nf)
    abstract = []
    cur = nf
    hist = []
    for nm in seq:
        _, fn, aop = table[nm]
        need = {"concat_parquet_first": ["x"], "sort_base": ["k"], "dropna_base": ["x"], "query_base": ["x"], "query_base_none": ["x"], "set_index": ["x"],
                "query_nested_all": ["n.b"], "sort_nested": ["n.b"], "eval_assign": ["n.b"], "query_nested": ["n.a"],
                "query_nested_none": ["n.a"], "dropna_nested": ["n.a"], "select_cols": ["x", "other"]}.get(nm, [])
        avoid = {"join_base": ["j"], "add_nested": ["extra"], "add_nested_all_labels": ["extra2"],
                 "add_nested_dotted_name": ["ex.tra"]}.get(nm, [])

        def has(path):
            if path == "ex.tra":
                return path in cur.columns
            if "." in path:
                c, f = path.split(".")
                return c in cur.columns and isinstance(cur[c].dtype, NestedDtype) and f in cur[c].nest.fields
            return path in cur.columns
        try:
            skip = not all(has(x) for x in need) or any(has(x) for x in avoid) or "n" not in cur.columns
        except Exception as e:  # noqa: BLE001
            # looking at the fields of a nested column of an intermediate result raised: that result is not usable
            ctx.case("chain.result_unusable", {"start": s.desc(), "chain": list(hist)},
                     {"err": type(e).__name__, "msg": str(e)[:120]}, None, {"ok": "the fields of every nested column can be listed"},
                     features=tuple(hist[-1:]), spec_ok=False, nontrivial=True)
            return
        if skip:
            continue
        if nm == "without_field" and not ("n" in cur.columns and isinstance(cur["n"].dtype, NestedDtype) and "b" in cur["n"].nest.fields
                                          and len(cur["n"].nest.fields) > 1):
            continue
        if nm in ("eval_assign",) and "b" not in cur["n"].nest.fields:
            continue
        if nm in ("sort_nested",) and "b" not in cur["n"].nest.fields:
            continue
        hist.append(nm)
        r = call_real(lambda: fn(cur))
        if "err" in r:
            ctx.case(f"chain.{nm}.raised", {"start": s.desc(), "chain": list(hist)}, r, None, {"ok": True}, features=(nm,),
                     spec_ok=False)
            return
        cur = r["ok"]
        abstract.append(aop)
        m = ctx.driver.call("kinds.run", cols=start_kinds, ops=abstract)["model"]
        exp_nested = m["nested_columns"]
        got = observe(cur, exp_nested)
        real = {"cls": got["cls"], "kinds": sorted(got["kinds"]), "nested_columns": sorted(got["nested_columns"] or []),
                "all_columns": {k: v for k, v in (got["all_columns"] or {}).items() if k != "base"}, "usable": got["usable"]}
        model = {"cls": "NestedFrame", "kinds": sorted(m["cols"]), "nested_columns": sorted(exp_nested),
                 "all_columns": {c: k for c, k in m["cols"] if isinstance(k, list)}, "usable": {n: "ok" for n in exp_nested}}
        # field order inside a nest is not part of the closure claim
        for d in (real, model):
            d["kinds"] = sorted([c, (sorted(k) if isinstance(k, list) else k)] for c, k in d["kinds"])
            d["all_columns"] = {c: sorted(v) for c, v in d["all_columns"].items()}
        ok = ctx.case(f"chain.{nm}", {"start": s.desc(), "chain": list(hist), "index": export.labels(nf.index)}, {"ok": real},
                      {"ok": model}, {"ok": model}, features=(nm, f"depth={len(hist)}", f"rows={min(len(cur), 3)}"), nontrivial=True)
        if not ok:
            return


def case_constructors(ctx):
    """the constructors that take a pandas table: whatever the class of the argument (plain DataFrame or NestedFrame)
    and the argument combination, the result is a NestedFrame whose listing names the nested column, and it is usable"""
    rng = ctx.rng
    n = rng.randint(1, 4)
    lists = pd.DataFrame({"k": np.arange(n, dtype=np.int64),
                          "a": pd.Series(pa.array([[1.0 * i] * (i % 3) for i in range(n)], type=pa.list_(pa.float64())),
                                         dtype=pd.ArrowDtype(pa.list_(pa.float64()))),
                          "b": pd.Series(pa.array([[i] * (i % 3) for i in range(n)], type=pa.list_(pa.int64())),
                                         dtype=pd.ArrowDtype(pa.list_(pa.int64())))})
    flat = pd.DataFrame({"k": np.arange(2 * n, dtype=np.int64) % n, "a": np.arange(2 * n, dtype=np.float64),
                         "base": (np.arange(2 * n) % n).astype(np.float64)}, index=pd.Index(np.arange(2 * n) % n))
    wrap = rng.choice(["plain", "nested"])
    w = (lambda d: d) if wrap == "plain" else NestedFrame
    forms = {
        "from_lists.base_columns": lambda: NestedFrame.from_lists(w(lists), base_columns=["k"], name="n"),
        "from_lists.list_columns": lambda: NestedFrame.from_lists(w(lists), list_columns=["a", "b"], name="n"),
        "from_lists.both": lambda: NestedFrame.from_lists(w(lists), base_columns=["k"], list_columns=["a"], name="n"),
        "from_lists.all_lists": lambda: NestedFrame.from_lists(w(lists[["a", "b"]]), name="n"),
        "from_flat.base_columns": lambda: NestedFrame.from_flat(w(flat), base_columns=["base"], name="n"),
        "from_flat.on": lambda: NestedFrame.from_flat(w(flat.reset_index(drop=True)), base_columns=["base"], on="k", name="n"),
        "from_flat.nested_columns": lambda: NestedFrame.from_flat(w(flat), base_columns=["base"], nested_columns=["a"], name="n"),
    }
    for form, fn in forms.items():
        def run(fn=fn):
            r = fn()
            got = observe(r, ["n"])
            return {"cls": got["cls"], "nested_columns": got["nested_columns"], "usable": got["usable"]}
        ctx.case(f"closure.constructor.{form}", {"n": n, "argument": wrap}, call_real(run), None,
                 {"ok": {"cls": "NestedFrame", "nested_columns": ["n"], "usable": {"n": "ok"}}},
                 features=("constructor", form, wrap), nontrivial=True)


def case_parquet_partial(ctx):
    """a parquet column selection naming fields of two nests (interleaved) and base columns: the result is a NestedFrame
    whose requested nests are nested with exactly the requested fields, whose requested base columns are base columns
    holding the base values, and whose listing says so"""
    from nested_pandas import read_parquet
    rng = ctx.rng
    nf, s = start_frame(ctx)
    cols = ["n.a", "other.p", "n.b", "x"]
    if rng.random() < 0.5:
        cols = ["k", "n.b", "other.p", "n.a", "x"]

    def run():
        buf = io.BytesIO()
        nf.reset_index(drop=True).to_parquet(buf)
        buf.seek(0)
        r = read_parquet(buf, columns=cols)
        got = observe(r, ["n", "other"])
        return {"cls": got["cls"], "kinds": sorted([c, (sorted(k) if isinstance(k, list) else k)] for c, k in got["kinds"]),
                "nested_columns": sorted(got["nested_columns"] or []), "usable": got["usable"],
                "x_values": [float(v) for v in r["x"].tolist()] if "x" in r.columns else None}
    base = [c for c in cols if "." not in c]
    exp = {"cls": "NestedFrame", "kinds": sorted([[c, "base"] for c in base] + [["n", ["a", "b"]], ["other", ["p"]]]),
           "nested_columns": ["n", "other"], "usable": {"n": "ok", "other": "ok"}, "x_values": [float(v) for v in nf["x"].tolist()]}
    ctx.case("closure.parquet_partial", {"start": s.desc(), "columns": cols}, call_real(run), None, {"ok": exp},
             features=("parquet_partial", f"k={len(cols)}"), nontrivial=True)


def run_all(ctx):
    import itertools
    rng = ctx.rng
    for _ in range(ctx.budget(12, 120)):
        case_reject_nesting(ctx)
    for _ in range(ctx.budget(8, 80)):
        case_constructors(ctx)
        case_parquet_partial(ctx)
    names = [o[0] for o in chain_ops(rng)]
    for nm in names:
        run_chain(ctx, [nm])
    # directed: results WITHOUT rows carried through the serialisers and copies, then used
    for empty in ("iloc_empty", "query_base_none", "query_nested_none"):
        for carrier in ("pickle", "parquet", "copy", "concat", "concat_with_pickle"):
            for use in ("query_nested", "sort_nested", "eval_assign", "field_assign"):
                run_chain(ctx, [empty, carrier, use])
    pairs = list(itertools.product(names, repeat=2))
    rng.shuffle(pairs)
    for p in pairs[:ctx.budget(150, len(pairs))]:
        run_chain(ctx, list(p))
    for _ in range(ctx.budget(60, 1500)):
        run_chain(ctx, depth=rng.randint(3, 6))
