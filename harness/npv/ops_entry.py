"""C01: entry points offered well-formed and ragged data; every array observed at birth."""
import contextlib
import io

from . import gen, export
from .common import pa, pd, np, weak_rows, TYPES, NestedExtensionArray, NestedDtype, NestedFrame
from .runner import call_real
from .subject import Subject
from .ops_array import colres, mcol, df_of_row, ragged_row

_births = []
_dtype_mismatches = []
_dtype_bindings = [0]


@contextlib.contextmanager
def birth_watch(ctx):
    """record every value bound to NestedExtensionArray._chunked_array while the block runs"""
    orig = NestedExtensionArray.__setattr__
    _births.clear()
    _dtype_mismatches.clear()
    _dtype_bindings[0] = 0

    def watch(self, name, value):
        if name == "_chunked_array" and len(_births) < 200000:
            _births.append(value)
        orig(self, name, value)
        if name == "_dtype":
            # the dtype an array announces is bound right after its storage: it must describe THAT storage
            _dtype_bindings[0] += 1
            try:
                st = self._chunked_array.type
                if not value.pyarrow_dtype.equals(st) and len(_dtype_mismatches) < 20:
                    _dtype_mismatches.append({"announced": str(value.pyarrow_dtype), "stored": str(st)})
            except AttributeError:
                pass
    NestedExtensionArray.__setattr__ = watch
    try:
        yield
    finally:
        NestedExtensionArray.__setattr__ = orig


def report_births(ctx):
    """judge the invariant on every distinct storage that came into existence"""
    seen = set()
    total = len(_births)
    rng = ctx.rng
    items = _births
    cap = ctx.budget(2500, 20000)
    if len(items) > cap:
        items = rng.sample(items, cap)
    checked = 0
    for ca in items:
        if id(ca) in seen:
            continue
        seen.add(id(ca))
        try:
            phys = export.export_col(ca)
        except Exception as e:  # noqa: BLE001  (e.g. non-struct storage)
            ctx.case("birth", {"type": str(ca.type)}, {"err": type(e).__name__}, None, {"ok": True}, features=("birth",))
            continue
        a = ctx.driver.call("abs", col=phys)["model"]
        hyp = a["hyp"]
        ok = bool(hyp["wf"] and hyp["rect"] and not hyp["nullNonEmpty"])
        checked += 1
        ctx.case("birth", {"phys": phys}, {"ok": {"wf": hyp["wf"], "rect": hyp["rect"]}}, None, {"ok": {"wf": True, "rect": True}},
                 hyp=hyp, features=("birth", f"chunks={min(hyp['nchunks'], 3)}"), spec_ok=ok,
                 nontrivial=len(a["col"]["rows"]) > 0)
    ctx.case("birth.dtype_describes_storage", {"dtype_bindings_observed": _dtype_bindings[0]},
             {"ok": {"mismatches": list(_dtype_mismatches)}}, None, {"ok": {"mismatches": []}}, features=("birth", "dtype"),
             nontrivial=_dtype_bindings[0] > 0)
    ctx.births = {"bindings_observed": total, "distinct_storages_judged": checked, "dtype_bindings_observed": _dtype_bindings[0]}
    _births.clear()


def ragged_content(rng, content):
    """make one non-missing row ragged (returns None when impossible)"""
    ty, rows = content["ty"], [None if r is None else [[n, list(c)] for n, c in r] for r in content["rows"]]
    cands = [i for i, r in enumerate(rows) if r is not None]
    if len(ty) < 2 or not cands:
        return None
    pos = rng.choice(["first", "last", "any"])
    i = cands[0] if pos == "first" else cands[-1] if pos == "last" else rng.choice(cands)
    j = rng.randrange(len(ty))
    if rows[i][j][1] and rng.random() < 0.5:
        rows[i][j][1] = rows[i][j][1][:-1]
    else:
        rows[i][j][1] = rows[i][j][1] + [gen.rand_cell(rng, ty[j][1])]
    return {"ty": ty, "rows": rows}


def build_ragged_struct(content):
    """struct array whose child lists follow content rows literally (may be ragged)"""
    ty, rows = content["ty"], content["rows"]
    kids = []
    for n, t in ty:
        kids.append(gen.mk_list_array([None if r is None else dict(map(tuple, r))[n] for r in rows], t))
    if not rows:
        return pa.array([], type=gen.struct_type(ty))
    return pa.StructArray.from_arrays(kids, names=[n for n, _ in ty], mask=pa.array([r is None for r in rows]))


def case_entry_points(ctx, s: Subject, ragged=False):
    rng = ctx.rng
    content = s.content
    is_ragged = False
    if ragged:
        rc = ragged_content(rng, content)
        if rc is not None:
            content, is_ragged = rc, True
    ty = content["ty"]
    rows = content["rows"]
    exp_rows = weak_rows(rows)
    feats = s.features + (f"ragged={is_ragged}",)

    def judge(op, real, inp, model=None):
        if is_ragged:
            ok = "err" in real
            spec = {"err": "ValueError"}
        else:
            ok = "ok" in real and real["ok"]["rows"] == exp_rows
            spec = {"ok": {"ty": ty, "rows": exp_rows}}
        ctx.case(op, inp, real, model, spec, hyp=s.hyp, features=feats, spec_ok=ok, nontrivial=s.nontrivial())
    inp = {"content": content}
    struct = build_ragged_struct(content)
    # 1. constructor, single chunk and chunked
    phys = export.export_col(pa.chunked_array([struct], type=gen.struct_type(ty)))
    ans = ctx.driver.call("init", col=phys, validate=True)
    judge("entry.constructor", call_real(lambda: colres(NestedExtensionArray(struct))), inp, mcol(ans["model"]))
    n = len(rows)
    k = rng.randint(0, n)
    chunked = pa.chunked_array([struct.slice(0, k), struct.slice(k)], type=gen.struct_type(ty))
    ans = ctx.driver.call("init", col=export.export_col(chunked), validate=True)
    judge("entry.constructor_chunked", call_real(lambda: colres(NestedExtensionArray(chunked))), inp, mcol(ans["model"]))
    # 2. pd.Series(..., dtype=NestedDtype) and astype from the Arrow struct dtype
    judge("entry.series_dtype", call_real(lambda: colres(pd.Series(struct, dtype=NestedDtype(struct.type)).array)), inp)
    judge("entry.astype", call_real(lambda: colres(
        pd.Series(struct, dtype=pd.ArrowDtype(struct.type)).astype(NestedDtype(struct.type)).array)), inp)
    # 3. pack_lists from list columns
    from nested_pandas.series.packer import pack_lists, pack_seq, pack

    def lists_df():
        d = {}
        for i, (nm, t) in enumerate(ty):
            la = struct.field(i)
            d[nm] = pd.Series(la, dtype=pd.ArrowDtype(la.type), index=pd.Index(s.labels))
        return pd.DataFrame(d)
    if all(r is not None for r in rows):
        judge("entry.pack_lists", call_real(lambda: colres(pack_lists(lists_df()).array)), inp)
        if len(rows) > 0:  # the empty-frame path of from_lists is a C09 finding (K7-C09), not a C01 matter
            judge("entry.from_lists", call_real(lambda: colres(NestedFrame.from_lists(NestedFrame(lists_df()))["nested"].array)), inp)
    # 4. pack_seq / from_sequence with dicts, DataFrames, None
    seq = [df_of_row(r, ty) for r in rows]
    judge("entry.pack_seq", call_real(lambda: colres(pack_seq(seq, dtype=NestedDtype(struct.type)).array)), inp)
    seqd = [None if r is None else {nm: gen.flat_array(c, dict(map(tuple, ty))[nm]) for nm, c in r} for r in rows]
    judge("entry.from_sequence_dicts", call_real(lambda: colres(
        NestedExtensionArray.from_sequence(seqd, dtype=NestedDtype(struct.type)))), inp)
    # 4b. Arrow data handed to pandas with a types mapper that names the nested dtype (`NestedDtype.__from_arrow__`),
    #     as a table column, as a chunked array whose later chunk holds the data, and through pandas' own parquet reader
    mapper = (lambda t: NestedDtype(t) if pa.types.is_struct(t) else None)
    judge("entry.table_types_mapper", call_real(lambda: colres(pa.table({"nest": struct}).to_pandas(types_mapper=mapper)["nest"].array)), inp)
    judge("entry.chunked_types_mapper", call_real(lambda: colres(
        pa.chunked_array([struct.slice(0, 0), struct], type=struct.type).to_pandas(types_mapper=mapper).array)), inp)

    def through_pandas_parquet():
        import pyarrow.parquet as pq
        buf = io.BytesIO()
        t = pa.Table.from_pandas(pd.DataFrame({"nest": pd.Series(struct, dtype=pd.ArrowDtype(struct.type))}))
        # pandas metadata that announce the nested dtype for that column (what a file written from a nested column carries)
        import json as _json
        meta = _json.loads(t.schema.metadata[b"pandas"])
        for c in meta["columns"]:
            if c["name"] == "nest":
                c["numpy_type"] = str(NestedDtype(struct.type))
        t = t.replace_schema_metadata({b"pandas": _json.dumps(meta).encode()})
        pq.write_table(t, buf)
        buf.seek(0)
        r = pd.read_parquet(buf)["nest"]
        assert isinstance(r.dtype, NestedDtype), f"pandas restored {r.dtype}"
        return colres(r.array)
    judge("entry.pandas_read_parquet", call_real(through_pandas_parquet), inp)
    # 4c. a sequence of DataFrames where a LATER frame lacks a column the first one (or the dtype) announces:
    #     pyarrow would fill the absent field with a null list next to the records of the other fields
    if not is_ragged and len(ty) >= 2 and sum(1 for r in rows if r) >= 1:
        cand = [i for i, r in enumerate(rows) if r is not None and len(r[0][1]) > 0]
        if cand:
            j = rng.choice(cand)
            frames = [df_of_row(r, ty) for r in rows]
            full_first = [df_of_row([[nm, [gen.rand_cell(rng, t, p_null=0)]] for nm, t in ty], ty)] + frames
            jj = j + 1
            full_first[jj] = full_first[jj].drop(columns=[ty[-1][0]])
            for opn, fn in (("pack_seq", lambda: pack_seq(full_first)), ("pack", lambda: pack(full_first)),
                            ("pack_seq_dtype", lambda: pack_seq(full_first, dtype=NestedDtype(struct.type))),
                            ("add_nested", lambda: NestedFrame({"k": np.arange(len(full_first))}).add_nested(full_first, "q")["q"])):
                def run(fn=fn):
                    ser = fn()
                    return {"row_lens": [None if r is None else sorted({(-1 if c is None else len(c)) for _, c in r})
                                         for r in export.rows_view(ser.array)]}
                real = call_real(run)
                ok = "err" in real or all(r is None or len(r) <= 1 for r in real["ok"]["row_lens"])
                ctx.case(f"entry.frames_missing_column.{opn}", {**s.desc(), "frame_without": jj, "column": ty[-1][0]}, real, None, None,
                         hyp=s.hyp, features=feats + ("frames_missing_column", opn), spec_ok=ok, nontrivial=True)
    # 5. parquet file with that struct column, read by the library
    def through_parquet():
        import pyarrow.parquet as pq
        from nested_pandas import read_parquet
        buf = io.BytesIO()
        pq.write_table(pa.table({"nest": struct}), buf)
        buf.seek(0)
        return colres(read_parquet(buf)["nest"].array)
    judge("entry.read_parquet", call_real(through_parquet), inp)

    # 5a. the same file loaded field by field (`columns=["nest.a", "nest.b"]`): the struct is put together again from
    #     the sub-columns by the reader (missing rows do not survive that: K3, so only columns without them are judged
    #     for content)
    def through_parquet_partial():
        import pyarrow.parquet as pq
        from nested_pandas import read_parquet
        buf = io.BytesIO()
        pq.write_table(pa.table({"nest": struct, "other": pa.array(range(len(struct)))}), buf)
        buf.seek(0)
        return colres(read_parquet(buf, columns=[f"nest.{nm}" for nm, _ in ty])["nest"].array)
    if len(ty) >= 2 and (is_ragged or all(r is not None for r in rows)):
        judge("entry.read_parquet_fields", call_real(through_parquet_partial), inp)
    # 5b. two fields that are windows of ONE parent list array (same offsets buffer, different starts):
    #     rectangular only if the windows have the same row lengths
    if len(ty) >= 2 and n >= 1:
        t0 = ty[0][1]
        lens = [rng.randint(0, 3) for _ in range(n + 1)]
        if not is_ragged:
            lens = [lens[0]] * (n + 1)
        parent = gen.mk_list_array([[gen.rand_cell(rng, t0) for _ in range(k)] for k in lens], t0)
        wa, wb = parent.slice(0, n), parent.slice(1, n)
        truly_ragged = lens[:n] != lens[1:n + 1]
        st2 = pa.StructArray.from_arrays([wa, wb], names=["a", "b"])
        phys2 = export.export_col(pa.chunked_array([st2]))
        ans = ctx.driver.call("init", col=phys2, validate=True)

        def judge2(op, real, model=None):
            ok = ("err" in real) if truly_ragged else ("ok" in real)
            ctx.case(op, {"parent_lens": lens, "ty": t0}, real, model, {"err": "ValueError"} if truly_ragged else None,
                     features=("shared_buffer", f"ragged={truly_ragged}"), spec_ok=ok)
        judge2("entry.shared_buffer.constructor", call_real(lambda: colres(NestedExtensionArray(st2))), mcol(ans["model"]))
        judge2("entry.shared_buffer.astype", call_real(lambda: colres(
            pd.Series(st2, dtype=pd.ArrowDtype(st2.type)).astype(NestedDtype(st2.type)).array)))
        judge2("entry.shared_buffer.pack_lists", call_real(lambda: colres(pack_lists(pd.DataFrame({
            "a": pd.Series(wa, dtype=pd.ArrowDtype(wa.type)), "b": pd.Series(wb, dtype=pd.ArrowDtype(wb.type))})).array)))
        base = pd.Series(NestedExtensionArray(pa.StructArray.from_arrays([wa], names=["a"])))
        judge2("entry.shared_buffer.with_list_field", call_real(lambda: colres(base.nest.with_list_field("b", wb).array)))
    # 5c. list columns where one cell is an ABSENT list (null / None) against a non-empty list in the same row:
    #     no table can have a field with no list next to a field with records -> refused; absent against empty
    #     and absent in every column are rectangular (no records)
    if len(ty) >= 2 and n >= 1:
        t0, t1 = ty[0][1], ty[1][1]
        j = rng.randrange(n)
        kind = rng.choice(["absent_vs_nonempty", "absent_vs_empty", "absent_everywhere"])
        la = [[gen.rand_cell(rng, t0) for _ in range(rng.randint(1, 3))] for _ in range(n)]
        lb = [[gen.rand_cell(rng, t1) for _ in range(len(x))] for x in la]
        la[j] = None
        if kind == "absent_vs_empty":
            lb[j] = []
        elif kind == "absent_everywhere":
            lb[j] = None
        how = rng.choice(["arrow", "object"])

        def cols():
            if how == "arrow":
                a = pa.array([None if x is None else gen.flat_array(x, t0).to_pylist() for x in la], type=pa.list_(TYPES[t0]))
                b_ = pa.array([None if x is None else gen.flat_array(x, t1).to_pylist() for x in lb], type=pa.list_(TYPES[t1]))
                return pd.DataFrame({"a": pd.Series(a, dtype=pd.ArrowDtype(a.type)), "b": pd.Series(b_, dtype=pd.ArrowDtype(b_.type))})
            return pd.DataFrame({"a": pd.Series([None if x is None else gen.flat_array(x, t0).to_pylist() for x in la], dtype=object),
                                 "b": pd.Series([None if x is None else gen.flat_array(x, t1).to_pylist() for x in lb], dtype=object)})
        for opn, fn in (("pack_lists", lambda: pack_lists(cols())),
                        ("from_lists", lambda: NestedFrame.from_lists(NestedFrame(cols()))["nested"]),
                        ("nest_lists", lambda: NestedFrame(cols()).nest_lists("nested", ["a", "b"])["nested"])):
            def run(fn=fn):
                ser = fn()
                # accepted: then every row must be a rectangular table and the views must be readable
                lens = [int(x) for x in ser.nest.list_lengths]
                flat = ser.nest.to_flat()
                return {"row_lens": [None if r is None else sorted({len(c) for _, c in r}) for r in export.rows_view(ser.array)],
                        "flat_len": len(flat), "sum_lens": sum(lens)}
            real = call_real(run)
            if kind == "absent_vs_nonempty":
                ok = "err" in real
            else:
                ok = "err" in real or (all(r is None or len(r) <= 1 for r in real["ok"]["row_lens"])
                                       and real["ok"]["flat_len"] == real["ok"]["sum_lens"])
            ctx.case(f"entry.absent_list.{opn}", {"a": la, "b": lb, "kind": kind, "how": how}, real, None,
                     {"err": "ValueError"} if kind == "absent_vs_nonempty" else None,
                     features=("absent_list", kind, how, opn), spec_ok=ok, nontrivial=True)
    # 5d. re-typing an EXISTING nested column to a nested dtype that announces a field the column does not have:
    #     pyarrow's struct cast would fill that field with null lists next to the records of the others
    if not is_ragged and n >= 1:
        wider = NestedDtype(pa.struct(list(struct.type) + [pa.field("zz_extra", pa.list_(pa.string()))]))
        src = pd.Series(NestedExtensionArray(struct), index=pd.Index(s.labels))
        for opn, fn in (("series_astype", lambda: src.astype(wider)),
                        ("frame_astype", lambda: NestedFrame({"nested": src}).astype({"nested": wider})["nested"]),
                        ("series_dtype", lambda: pd.Series(src.array, index=src.index, dtype=wider)),
                        ("from_sequence", lambda: pd.Series(NestedExtensionArray.from_sequence(src.array, dtype=wider)))):
            def run(fn=fn):
                ser = fn()
                return {"row_lens": [None if r is None else sorted({(-1 if c is None else len(c)) for _, c in r})
                                     for r in export.rows_view(ser.array)]}
            real = call_real(run)
            ok = "err" in real or all(r is None or len(r) <= 1 for r in real["ok"]["row_lens"])
            ctx.case(f"entry.wider_dtype.{opn}", {**s.desc(), "extra_field": "zz_extra"}, real, None, None, hyp=s.hyp,
                     features=feats + ("wider_dtype", opn), spec_ok=ok, nontrivial=any(r for r in rows))
    # 6. take with a ragged fill value
    if is_ragged:
        bad = next(r for r, r0 in zip(rows, s.content["rows"]) if r != r0)
        ext = s.fresh_ext()
        real = call_real(lambda: colres(ext.take(np.array([0, -1] if len(ext) else [-1]), allow_fill=True, fill_value=df_of_row(bad, ty))))
        ctx.case("entry.take_fill", {**s.desc(), "fill": bad}, real, None, {"err": "ValueError"}, hyp=s.hyp, features=feats,
                 spec_ok="err" in real)


def failed_assign_leaves_object(ctx, count):
    """a refused ragged assignment leaves the same object unchanged, at the array and at the Series level"""
    rng = ctx.rng
    for _ in range(count):
        s = Subject(ctx, allow_hidden=False, nrows=rng.randint(1, 5), ty=gen.rand_ty(rng, nfields=rng.randint(2, 3)))
        ser = s.series()
        before = weak_rows(export.rows_view(ser.array))
        row = ragged_row(rng, s.ty)
        i = rng.randrange(len(ser))
        val = df_of_row(row, s.ty)
        how = rng.choice(["array", "iat", "mask", "slice"])

        def go():
            if how == "array":
                ser.array[i] = val
            elif how == "iat":
                ser.iat[i] = val
            elif how == "mask":
                m = np.zeros(len(ser), dtype=bool)
                m[i] = True
                ser.array[m] = val
            else:
                ser.array[i:i + 1] = val
            return "stored"
        real = call_real(go)
        after = call_real(lambda: weak_rows(export.rows_view(ser.array)))
        ok = "err" in real and after.get("ok") == before
        ctx.case(f"ragged_assign.{how}", {**s.desc(), "pos": i, "value": row}, {"outcome": real, "after": after}, None,
                 {"err": "ValueError", "after": before}, hyp=s.hyp, features=(how,), spec_ok=ok)


def views_agree(ser):
    """self-consistency of the views of one column (no model involved): per-row tables, list view, flat view, summaries"""
    ext = ser.array
    ll = [int(x) for x in ext.list_lengths]
    miss = [bool(x) for x in ext.isna()]
    lists = ser.nest.to_lists()
    flat = ser.nest.to_flat()
    out = {"list_lengths": ll, "flat_length": int(ext.flat_length), "flat_rows": len(flat),
           "offset_diffs": [int(x) for x in np.diff(np.asarray(ext.list_offsets))],
           "list_view": {c: [0 if v is None else len(v) for v in pa.array(lists[c]).to_pylist()] for c in lists.columns},
           "tables": [0 if m else len(df) for m, df in zip(miss, list(ext))],
           "table_cells": [0 if m else int(df.notna().to_numpy().sum()) + int(df.isna().to_numpy().sum()) for m, df in zip(miss, list(ext))],
           "list_index_counts": [int(x) for x in np.bincount(np.asarray(ext.get_list_index(), dtype=np.int64), minlength=len(ext))] if len(ext) else []}
    nf = len(lists.columns)
    ok = (out["flat_length"] == sum(ll) == out["flat_rows"] and out["offset_diffs"] == ll and out["tables"] == ll
          and all(v == ll for v in out["list_view"].values()) and out["list_index_counts"] == ll
          and out["table_cells"] == [k * nf for k in ll])
    # values: the flat view of a field is the concatenation of its lists
    for c in lists.columns:
        cat = [x for v in pa.array(lists[c]).to_pylist() if v is not None for x in v]
        ok = ok and str(cat) == str(pa.array(flat[c]).to_pylist())
    return ok, out


def case_views_of_accepted_windows(ctx):
    """C03 for columns put together from list arrays that are windows of ONE parent array (same offsets buffer, other
    starts): whatever an entry point accepts has views that agree (refusing the ragged ones is what C01 asks for)"""
    from nested_pandas.series.packer import pack_lists
    rng = ctx.rng
    n = rng.randint(1, 5)
    t0 = rng.choice(["int64", "double", "string"])
    lens = [rng.randint(0, 3) for _ in range(n + 1)]
    if rng.random() < 0.4:
        lens = [lens[0]] * (n + 1)
    parent = gen.mk_list_array([[gen.rand_cell(rng, t0, p_null=0.0, p_nan=0.0) for _ in range(k)] for k in lens], t0)
    wa, wb = parent.slice(0, n), parent.slice(1, n)
    rect = lens[:n] == lens[1:n + 1]
    index = pd.Index(gen.rand_labels(rng, n))
    sa = pd.Series(wa, dtype=pd.ArrowDtype(wa.type), index=index)
    sb = pd.Series(wb, dtype=pd.ArrowDtype(wb.type), index=index)
    ways = {
        "constructor": lambda: pd.Series(NestedExtensionArray(pa.StructArray.from_arrays([wa, wb], names=["a", "b"])), index=index),
        "pack_lists": lambda: pack_lists(pd.DataFrame({"a": sa, "b": sb})),
        "from_lists": lambda: NestedFrame.from_lists(pd.DataFrame({"a": sa, "b": sb}), name="nest")["nest"],
        "with_list_field": lambda: pack_lists(pd.DataFrame({"a": sa})).nest.with_list_field("b", sb),
        "sliced.with_list_field": lambda: pack_lists(pd.DataFrame({"a": pd.Series(parent, dtype=pd.ArrowDtype(parent.type))})).iloc[:n]
                                          .nest.with_list_field("b", sb.reset_index(drop=True)),
    }
    for nm, fn in ways.items():
        def run(fn=fn):
            ok, out = views_agree(fn())
            return {"agree": ok, "views": out}
        real = call_real(run)
        ok = ("err" in real and not rect) or ("ok" in real and real["ok"]["agree"])
        ctx.case(f"views.accepted_windows.{nm}", {"parent_lens": lens, "ty": t0}, real, None, None,
                 features=("accepted_windows", nm, f"rect={rect}"), spec_ok=ok, nontrivial=sum(lens) > 0)



def case_same_names_other_units(ctx):
    """columns with the SAME field names whose element types differ only in a parameter (the unit of a timestamp),
    made one after the other in one process through several entry points: each announces its own element types,
    shows them in the flat view, and stores what it announces"""
    from nested_pandas.series.packer import pack_lists, pack_flat
    rng = ctx.rng
    units = ["ns", "us", "ms", "s"]
    rng.shuffle(units)
    names = rng.choice([("t", "v"), ("a", "b"), ("time", "flux")])
    for unit in units[:rng.randint(2, 4)]:
        tt = pa.timestamp(unit)
        n = rng.randint(1, 3)
        lens = [rng.randint(0, 2) for _ in range(n)]
        k = sum(lens)
        offs = pa.array(np.concatenate([[0], np.cumsum(lens)]).astype(np.int32))
        tvals = pa.array([rng.randint(0, 10 ** 6) for _ in range(k)], type=pa.int64()).cast(tt)
        vvals = pa.array([rng.randint(-5, 5) for _ in range(k)], type=pa.int64())
        st = pa.StructArray.from_arrays([pa.ListArray.from_arrays(offs, tvals), pa.ListArray.from_arrays(offs, vvals)], names=list(names))
        entry = rng.choice(["constructor", "pack_lists", "pack_flat", "series_dtype"])

        def make():
            if entry == "constructor":
                return pd.Series(NestedExtensionArray(st))
            if entry == "series_dtype":
                return pd.Series(st, dtype=NestedDtype(st.type))
            if entry == "pack_lists":
                return pack_lists(pd.DataFrame({nm: pd.Series(st.field(nm), dtype=pd.ArrowDtype(st.field(nm).type)) for nm in names}))
            flat = pd.DataFrame({names[0]: pd.Series(tvals, dtype=pd.ArrowDtype(tt)), names[1]: pd.Series(vvals, dtype=pd.ArrowDtype(pa.int64()))},
                                index=np.repeat(np.arange(n), lens))
            return pack_flat(flat)

        def probe():
            ser = make()
            ext = ser.array
            flat = ser.nest.to_flat()
            return {"announced_is_stored": bool(ext.dtype.pyarrow_dtype.equals(ext.chunked_array.type)),
                    "announced_element_type": str(ext.dtype.pyarrow_dtype.field(names[0]).type.value_type),
                    "series_dtype_is_array_dtype": bool(ser.dtype == ext.dtype),
                    "flat_element_type": str(flat[names[0]].dtype.pyarrow_dtype) if len(flat.columns) else None}
        ctx.case(f"entry.same_names_other_units.{entry}", {"unit": unit, "names": list(names), "lens": lens}, call_real(probe), None,
                 {"ok": {"announced_is_stored": True, "announced_element_type": str(tt), "series_dtype_is_array_dtype": True,
                         "flat_element_type": str(tt)}}, features=("same_names_other_units", entry, unit))
